#!/usr/bin/env python3
"""Regenerates MANIFEST.json from props/*.json and manifest_meta.json (claimed checks) — keeps it schema-valid."""
import json, os, glob
D = os.path.dirname(os.path.abspath(__file__))
meta = json.load(open(os.path.join(D, "manifest_meta.json")))
props = [json.loads(l) for l in open(os.path.join(D, "properties.jsonl"))]
checks, na = [], []
for p in props:
    pid = p["id"]
    m = meta["claimed"].get(pid)
    if m and os.path.exists(os.path.join(D, "props", pid + ".json")):
        checks.append({
            "property_id": pid,
            "quick_cmd": f"bin/check {pid} --tier quick",
            "thorough_cmd": f"bin/check {pid} --tier thorough",
            "evidence_file": f"/verif/evidence/{pid}.json",
            "replay_cmd_template": "bin/check --replay {path}",
            "engine": "stickvc",
            "level_claimed": {"category": m["category"], "text": m["text"], "design_ref": m.get("design_ref", "DESIGN.md section 5 (" + pid + ")")},
            "level_note": m["note"],
            "technique": m.get("technique", "contract-based deductive verification: VCs generated from go/ssa of /repo, discharged by z3/cvc5"),
        })
    else:
        na.append({"property_id": pid, "reason": meta["not_applicable"].get(pid, "contract machinery for this property not built yet")})
man = {
    "version": 1,
    "setup_cmd": "cd /verif/engine && GOFLAGS=-mod=mod GOPROXY=off GOSUMDB=off GOTOOLCHAIN=local go build -o /verif/bin/stickvc ./cmd/stickvc",
    "hooks": {
        "guard": "verif",
        "enable": "go build -tags verif ./...  (the tag only adds comment-only zz_contracts_verif.go files; stickvc loads /repo with -tags=verif)",
        "baseline_off_cmd": "cd /repo && go test -vet=off -count=1 ./...",
        "source_commits": meta["hook_commits"],
        "add_only": True,
    },
    "engines": [{"name": "stickvc", "path": "/verif/engine", "serves_properties": [c["property_id"] for c in checks],
                 "kind_free_text": "home-built VC generator over go/ssa (x/tools v0.29.0) with Gobra-style //@ contracts in build-tag-guarded comment-only files; obligations discharged by z3 4.8.12 / z3 5.1.0 / cvc5 1.0.x (portfolio); counterexamples replayed on the real code with go test -overlay"}],
    "checks": checks,
    "not_applicable": na,
    "notes": meta.get("notes", ""),
}
json.dump(man, open(os.path.join(D, "MANIFEST.json"), "w"), indent=1)
print("claimed:", [c["property_id"] for c in checks], "n/a:", len(na))
