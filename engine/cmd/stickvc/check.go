package main

// Property checks: select obligations, discharge, classify against known findings, replay, evidence.

import (
	"encoding/json"
	"flag"
	"fmt"
	"golang.org/x/tools/go/ssa"
	"os"
	"path/filepath"
	"regexp"
	"sort"
	"strconv"
	"strings"
	"time"
)

type PropConfig struct {
	ID          string        `json:"id"`
	Functions   []string      `json:"functions"` // function keys or prefix*
	Lemmas      []string      `json:"lemmas"`    // lemma name prefixes
	Kinds       []string      `json:"kinds"`     // obligation kinds claimed (empty = all)
	Include     []string      `json:"include"`   // regexps on obligation names; if set, only these (after kinds)
	Exclude     []string      `json:"exclude"`   // regexps on obligation names not claimed (with reason in ExcludeWhy)
	ExcludeWhy  string        `json:"exclude_why"`
	Assumptions []string      `json:"assumptions"`
	TrustedBase []string      `json:"trusted_base"`
	Explanation string        `json:"explanation"`
	Replay      string        `json:"replay"`    // replay family
	Witnesses   []string      `json:"witnesses"` // witness inputs tried first by the replay harness
	Slow        []string      `json:"slow"`      // regexps: obligations only run in the thorough tier
	Closure     []string      `json:"closure"`   // packages: also every function of these packages statically reachable from the listed ones (new helpers are swept too)
	MinObl      int           `json:"min_obligations"`
	Bounded     []BoundedSpec `json:"bounded"`
}

type BoundedSpec struct {
	Name  string `json:"name"`
	Bound string `json:"bound"`
	Test  string `json:"test"` // harness test name
	Pkg   string `json:"pkg"`
}

type Finding struct {
	Property   string `json:"property"`
	Obligation string `json:"obligation"`
	Status     string `json:"status"` // open | fixed
	What       string `json:"what"`
	Commit     string `json:"commit,omitempty"`
	Witness    string `json:"witness,omitempty"`
}

type FindingsFile struct {
	Findings []Finding `json:"findings"`
}

func loadFindings() []Finding {
	var ff FindingsFile
	b, err := os.ReadFile(filepath.Join(verifDir, "known_findings.json"))
	if err != nil {
		return nil
	}
	if err := json.Unmarshal(b, &ff); err != nil {
		fmt.Fprintln(os.Stderr, "known_findings.json:", err)
		os.Exit(2)
	}
	return ff.Findings
}

var probesRun int

func cmdCheck(args []string) int {
	fs := flag.NewFlagSet("check", flag.ExitOnError)
	tier := fs.String("tier", "", "quick|thorough")
	var id string
	if len(args) > 0 && !strings.HasPrefix(args[0], "-") {
		id = args[0]
		args = args[1:]
	}
	fs.Parse(args)
	if id == "" && fs.NArg() > 0 {
		id = fs.Arg(0)
	}
	if *tier == "" {
		*tier = os.Getenv("VERIF_TIER")
	}
	if *tier == "" {
		*tier = "quick"
	}
	seed, _ := strconv.Atoi(os.Getenv("VERIF_SEED"))
	t0 := time.Now()
	b, err := os.ReadFile(filepath.Join(verifDir, "props", id+".json"))
	if err != nil {
		fmt.Fprintln(os.Stderr, "no property config:", err)
		return 2
	}
	var pc PropConfig
	if err := json.Unmarshal(b, &pc); err != nil {
		fmt.Fprintln(os.Stderr, "bad property config:", err)
		return 2
	}
	e := mustLoad()
	if os.Getenv("STICKVC_NOPROBES") == "" {
		// the assumed library contracts must leave every probed situation satisfiable (else proofs may be vacuous)
		bad, n := runProbes(e, 10*time.Second)
		probesRun = n
		if len(bad) > 0 {
			for _, b := range bad {
				fmt.Fprintln(os.Stderr, "ENGINE ERROR: contract probe failed:", b)
			}
			return 2
		} else if n == 0 {
			fmt.Fprintln(os.Stderr, "ENGINE ERROR: no contract probes found (zz_probes_verif.go missing?)")
			return 2
		}
	}
	findings := loadFindings()

	type fnInfo struct {
		Obligations int      `json:"obligations"`
		Discharged  int      `json:"discharged"`
		Abstracted  []string `json:"abstracted,omitempty"`
		Unmodelled  []string `json:"unmodelled_calls,omitempty"`
	}
	fnInfos := map[string]*fnInfo{}
	var obls []*Obligation
	var degraded []string
	var unclaimed []string
	usedContracts := map[string]bool{}
	kindOK := func(k string) bool {
		if len(pc.Kinds) == 0 {
			return true
		}
		for _, x := range pc.Kinds {
			if x == k {
				return true
			}
		}
		return false
	}
	var incRe, excRe, slowRe []*regexp.Regexp
	var slowSkipped []string
	for _, s := range pc.Slow {
		slowRe = append(slowRe, regexp.MustCompile(s))
	}
	for _, s := range pc.Include {
		incRe = append(incRe, regexp.MustCompile(s))
	}
	for _, s := range pc.Exclude {
		excRe = append(excRe, regexp.MustCompile(s))
	}
	claimed := func(o *Obligation) bool {
		if !kindOK(o.Kind) {
			return false
		}
		if len(incRe) > 0 {
			ok := false
			for _, r := range incRe {
				if r.MatchString(o.Name) {
					ok = true
				}
			}
			if !ok {
				return false
			}
		}
		for _, r := range excRe {
			if r.MatchString(o.Name) {
				unclaimed = append(unclaimed, o.Name)
				return false
			}
		}
		if *tier != "thorough" {
			for _, r := range slowRe {
				if r.MatchString(o.Name) {
					slowSkipped = append(slowSkipped, o.Name)
					return false
				}
			}
		}
		return true
	}
	var keys []string
	explicit := map[string]bool{}
	for _, p := range pc.Functions {
		if !strings.HasSuffix(p, "*") {
			explicit[p] = true
		}
	}
	for _, p := range pc.Functions {
		if strings.HasSuffix(p, "*") {
			keys = append(keys, expandFuncs(e, []string{p})...)
			continue
		}
		if _, ok := e.funcs[p]; !ok {
			degraded = append(degraded, p)
			continue
		}
		keys = append(keys, p)
	}
	if len(pc.Closure) > 0 {
		for _, k := range e.reachableFrom(keys) {
			for _, p := range pc.Closure {
				if strings.HasPrefix(k, p+".") {
					keys = append(keys, k)
				}
			}
		}
	}
	{
		seenKey := map[string]bool{}
		var uniq []string
		for _, k := range keys {
			if !seenKey[k] {
				seenKey[k] = true
				uniq = append(uniq, k)
			}
		}
		keys = uniq
	}
	var inlined []string
	for _, k := range keys {
		if f := e.funcs[k]; f != nil && f.Parent() != nil && !explicit[k] {
			// closures are verified where they are created (inlined at their call / defer / callback site)
			inlined = append(inlined, k)
			continue
		}
		if ct := e.contracts.Funcs[k]; ct != nil && ct.Inline {
			// verified in the context of each caller (expanded at its call sites)
			inlined = append(inlined, k)
			continue
		}
		if f := e.funcs[k]; f != nil && e.contracts.Funcs[k] == nil && !explicit[k] && f.Object() != nil && !f.Object().Exported() && autoInlinable(f) && e.staticallyCalled()[f] {
			// a small unexported helper without a contract: expanded (and checked) at each of its call sites
			inlined = append(inlined, k)
			continue
		}
		fc, err := e.genFunction(e.funcs[k])
		if err != nil {
			// a contract that no longer attaches (renamed local, restructured loop) is not a verdict
			degraded = append(degraded, k+": "+err.Error())
			continue
		}
		fi := &fnInfo{Abstracted: fc.abstracted}
		for u := range fc.unmodelled {
			fi.Unmodelled = append(fi.Unmodelled, u)
		}
		sort.Strings(fi.Unmodelled)
		for u := range fc.used {
			usedContracts[u] = true
		}
		fnInfos[k] = fi
		for _, o := range fc.obls {
			if claimed(o) {
				obls = append(obls, o)
			}
		}
	}
	if len(pc.Lemmas) > 0 {
		for _, o := range e.genLemmas().obls {
			for _, p := range pc.Lemmas {
				if strings.HasPrefix(o.Anchor, p) {
					obls = append(obls, o)
					break
				}
			}
		}
	}
	header := e.u
	if os.Getenv("STICKVC_TIMING") != "" {
		fmt.Fprintf(os.Stderr, "TIMING gen %.1fs obligations=%d\n", time.Since(t0).Seconds(), len(obls))
	}
	timeout := 10 * time.Second
	if *tier == "thorough" {
		timeout = 60 * time.Second
	}
	runObligations(obls, header, timeout, *tier == "thorough")
	// covers
	var vacuous []*Obligation
	coverCount := 0
	{
		var cov []*Obligation
		if *tier == "thorough" {
			cov = obls
		} else {
			// quick tier: one reachability check per basic block that has obligations
			seen := map[string]bool{}
			for _, o := range obls {
				k := fmt.Sprintf("%s#%d", o.Func, o.Blk)
				if !seen[k] {
					seen[k] = true
					cov = append(cov, o)
				}
			}
		}
		vacuous = runCovers(cov, header, timeout)
		for _, o := range cov {
			if o.Kind != "lemma" {
				coverCount++
			}
		}
	}

	if os.Getenv("STICKVC_TIMING") != "" {
		fmt.Fprintf(os.Stderr, "TIMING solved+covers %.1fs\n", time.Since(t0).Seconds())
	}
	// classify
	byBackend := map[string]int{}
	solverTime := 0.0
	discharged := 0
	var violations []*Obligation
	var knownHit []Finding
	engineErr := false
	for _, o := range obls {
		solverTime += o.Seconds
		if fi := fnInfos[o.Func]; fi != nil {
			fi.Obligations++
		}
		if o.Status == "unsat" {
			discharged++
			byBackend[o.Solver]++
			if fi := fnInfos[o.Func]; fi != nil {
				fi.Discharged++
			}
			continue
		}
		if o.Status == "disagree" {
			engineErr = true
			fmt.Fprintln(os.Stderr, "ENGINE ERROR: solvers disagree on", o.Name, o.Output)
			continue
		}
		matched := false
		for _, f := range findings {
			if f.Property == pc.ID && f.Status == "open" && f.Obligation == o.Name {
				matched = true
				knownHit = append(knownHit, f)
				fmt.Printf("KNOWN-FINDING: property=%s %s — %s\n", pc.ID, o.Name, f.What)
			}
		}
		if !matched {
			violations = append(violations, o)
		}
	}
	// A function whose contract no longer attaches (a clause names a local, a call or a loop that the body no longer
	// has) leaves every obligation of that function undischarged. On the unchanged tree every contract attaches, so
	// this is reported as the failed obligation <func>#attach (no input: the verifier produced no query).
	for _, d := range degraded {
		fn, why := d, "function not found in the package"
		if i := strings.Index(d, ": "); i >= 0 {
			fn, why = d[:i], d[i+2:]
		}
		fmt.Printf("DEGRADED property=%s function=%s reason=%s\n", pc.ID, fn, truncate(why, 300))
		violations = append(violations, &Obligation{Name: fn + "#attach", Func: fn, Kind: "attach", Status: "undischarged",
			Desc: "the contract of this function could not be attached to its current body: " + why, Output: why})
	}
	for _, o := range vacuous {
		fmt.Printf("NOTE property=%s obligation=%s program point not shown reachable (vacuity guard)\n", pc.ID, o.Name)
	}
	replayDir := filepath.Join(verifDir, "replay", pc.ID)
	os.RemoveAll(replayDir)
	for _, o := range violations {
		path, confirmed := writeReplay(e, &pc, o, header, replayDir)
		if confirmed {
			fmt.Printf("VIOLATION property=%s replay=%s\n", pc.ID, path)
		} else {
			fmt.Printf("VIOLATION property=%s replay=%s no-failing-input-found\n", pc.ID, path)
		}
	}
	// bounded stand-ins
	boundedRes := map[string]interface{}{}
	for _, bs := range pc.Bounded {
		ok, out := runBounded(bs, *tier)
		boundedRes[bs.Name] = map[string]interface{}{"bound": bs.Bound, "passed": ok, "output": firstLines(out, 6)}
		if !ok {
			p := filepath.Join(replayDir, sanitize("bounded_"+bs.Name)+".json")
			os.MkdirAll(replayDir, 0o755)
			jb, _ := json.MarshalIndent(map[string]interface{}{"kind": "bounded", "name": bs.Name, "output": out}, "", " ")
			os.WriteFile(p, jb, 0o644)
			fmt.Printf("VIOLATION property=%s replay=%s\n", pc.ID, p)
			violations = append(violations, &Obligation{Name: "bounded:" + bs.Name})
		}
	}

	// evidence
	claimedN := len(obls) - len(knownHit)
	level := "proof"
	var samples []interface{}
	for i, o := range obls {
		if i%maxInt(1, len(obls)/6) == 0 && len(samples) < 8 {
			samples = append(samples, map[string]interface{}{"obligation": o.Name, "kind": o.Kind, "pos": o.Pos, "statement": o.Desc,
				"smt_lines": o.Prefix, "result": o.Status, "backend": o.Solver, "seconds": o.Seconds})
		}
	}
	var kf []string
	for _, f := range knownHit {
		kf = append(kf, f.Obligation+": "+f.What)
	}
	var trusted []string
	trusted = append(trusted, pc.TrustedBase...)
	var ucs []string
	for u := range usedContracts {
		ucs = append(ucs, u)
	}
	sort.Strings(ucs)
	for _, u := range ucs {
		if strings.HasPrefix(u, "ext:") {
			trusted = append(trusted, "assumed contract of "+strings.TrimPrefix(u, "ext:"))
		}
	}
	trusted = append(trusted, "go/ssa lowering (x/tools v0.29.0)", "stickvc VC generator", "SMT solvers z3 4.8.12 / z3 5.1.0 / cvc5 1.0")
	expl := pc.Explanation
	if len(knownHit) > 0 {
		expl += fmt.Sprintf(" %d obligation(s) are open known findings (genuine defects recorded in known_findings.json) and are not counted under obligations/discharged.", len(knownHit))
	}
	cov := map[string]interface{}{
		"obligations":              claimedN,
		"discharged":               discharged,
		"checker_cmd":              "bin/check " + pc.ID + " --tier " + *tier,
		"trusted_base":             trusted,
		"functions_under_contract": fnInfos,
		"by_backend":               byBackend,
		"solver_time_s":            round2(solverTime),
		"known_findings_hit":       kf,
		"vacuity":                  map[string]interface{}{"cover_queries": coverCount, "unreachable_or_unknown": len(vacuous)},
		"samples":                  samples,
		"explanation":              expl,
		"degraded":                 degraded,
		"library_contract_probes":  fmt.Sprintf("%d situations probed, all satisfiable under the assumed library contracts", probesRun),
		"not_claimed":              map[string]interface{}{"obligations": unclaimed, "why": pc.ExcludeWhy},
		"thorough_tier_only":       slowSkipped,
		"inlined_into_callers":     inlined,
		"bounded":                  boundedRes,
		"contract_assumes":         e.contracts.Assumes,
	}
	if discharged != claimedN || claimedN == 0 {
		level = "other"
	}
	ev := map[string]interface{}{
		"property_id": pc.ID, "tier": *tier, "seed": seed, "level": level, "coverage": cov,
		"assumptions": pc.Assumptions, "wall_s": round2(time.Since(t0).Seconds()), "violations": len(violations),
	}
	os.MkdirAll(filepath.Join(verifDir, "evidence"), 0o755)
	jb, _ := json.MarshalIndent(ev, "", " ")
	os.WriteFile(filepath.Join(verifDir, "evidence", pc.ID+".json"), jb, 0o644)
	fmt.Printf("property=%s tier=%s obligations=%d discharged=%d known-findings=%d violations=%d degraded=%d wall=%.1fs\n",
		pc.ID, *tier, claimedN, discharged, len(knownHit), len(violations), len(degraded), time.Since(t0).Seconds())
	if engineErr {
		return 2
	}
	if len(violations) > 0 {
		return 1
	}
	if pc.MinObl > 0 && len(obls) < pc.MinObl && len(degraded) == 0 {
		fmt.Fprintf(os.Stderr, "ENGINE ERROR: only %d obligations generated, expected at least %d\n", len(obls), pc.MinObl)
		return 2
	}
	return 0
}

func maxInt(a, b int) int {
	if a > b {
		return a
	}
	return b
}

func round2(f float64) float64 { return float64(int(f*100+0.5)) / 100 }

// runProbes: reachability probes of the assumed library contracts (functions *.verifProbe* in /repo, build tag
// verif). Each probe returns true in a situation that really occurs; with the synthetic postcondition
// "mustfail: !result" the obligation must be REFUTED (sat). A probe that is proved instead means an assumed contract
// is inconsistent or too strong - every proof using it would be suspect - and is an engine error, not a verdict.
func runProbes(e *Engine, timeout time.Duration) (bad []string, n int) {
	var keys []string
	for k := range e.funcs {
		if strings.Contains(k, ".verifProbe") {
			keys = append(keys, k)
		}
	}
	sort.Strings(keys)
	var obls []*Obligation
	for _, k := range keys {
		ct := e.contracts.Funcs[k]
		if ct == nil {
			ct = &FuncContract{Key: k, Loops: map[int]*LoopSpec{}}
			e.contracts.Funcs[k] = ct
		}
		if len(ct.Ensures) == 0 {
			ex, err := parseSpecExpr("!result")
			if err != nil {
				bad = append(bad, k+": "+err.Error())
				continue
			}
			ct.Ensures = append(ct.Ensures, Clause{Label: "mustfail", Src: "!result", Expr: ex, Line: "probe"})
		}
		// loops of probes carry no invariant: the trivial one
		fc, err := e.genFunction(e.funcs[k])
		if err != nil {
			bad = append(bad, k+": "+err.Error())
			continue
		}
		for _, o := range fc.obls {
			if o.Kind == "post" && strings.Contains(o.Name, "mustfail") {
				obls = append(obls, o)
			}
		}
	}
	runObligations(obls, e.u, timeout, false)
	for _, o := range obls {
		n++
		if o.Status != "sat" {
			bad = append(bad, fmt.Sprintf("%s: %s (the probed situation is not satisfiable under the assumed contracts)", o.Name, o.Status))
		}
	}
	return bad, n
}

// staticallyCalled: the repository functions that some other repository function calls directly.
func (e *Engine) staticallyCalled() map[*ssa.Function]bool {
	if e.calledCache != nil {
		return e.calledCache
	}
	m := map[*ssa.Function]bool{}
	for _, f := range e.funcs {
		if f == nil {
			continue
		}
		for _, b := range f.Blocks {
			for _, in := range b.Instrs {
				if c, ok := in.(ssa.CallInstruction); ok {
					if g := c.Common().StaticCallee(); g != nil && g != f {
						m[g] = true
					}
				}
			}
		}
	}
	e.calledCache = m
	return m
}


// reachableFrom: the keys of the repository functions (with a body, not closures) that the given ones call
// directly or indirectly by a static call, in a stable order; functions already listed are not repeated.
func (e *Engine) reachableFrom(keys []string) []string {
	byFn := map[*ssa.Function]string{}
	for k, f := range e.funcs {
		if f != nil {
			byFn[f] = k
		}
	}
	seen := map[string]bool{}
	for _, k := range keys {
		seen[k] = true
	}
	var out []string
	work := append([]string{}, keys...)
	for len(work) > 0 {
		k := work[0]
		work = work[1:]
		f := e.funcs[k]
		if f == nil {
			continue
		}
		var visit func(f *ssa.Function)
		visit = func(f *ssa.Function) {
			for _, b := range f.Blocks {
				for _, in := range b.Instrs {
					if c, ok := in.(ssa.CallInstruction); ok {
						if g := c.Common().StaticCallee(); g != nil {
							if gk, ok := byFn[g]; ok && !seen[gk] && g.Parent() == nil && len(g.Blocks) > 0 {
								seen[gk] = true
								out = append(out, gk)
								work = append(work, gk)
							}
						}
					}
					if mc, ok := in.(*ssa.MakeClosure); ok {
						if g, ok := mc.Fn.(*ssa.Function); ok {
							visit(g)
						}
					}
				}
			}
		}
		visit(f)
	}
	sort.Strings(out)
	return out
}
