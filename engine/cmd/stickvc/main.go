package main

import (
	"context"
	"flag"
	"path/filepath"
	"fmt"
	"os"
	"sort"
	"strings"
	"sync"
	"time"
)

func usage() {
	fmt.Fprintln(os.Stderr, `usage:
  stickvc dump <funcKey>                     print SSA of a function
  stickvc gen <funcKey>...                   list obligations of functions
  stickvc prove [-t sec] [-smt dir] <funcKey>...   discharge obligations of functions
  stickvc check <Cxx> [--tier quick|thorough]      run a property check
  stickvc funcs                              list function keys`)
	os.Exit(2)
}

var verifDir = "/verif"
var repoDir = "/repo"

func main() {
	if v := os.Getenv("STICKVC_VERIF"); v != "" {
		verifDir = v
	}
	if v := os.Getenv("STICKVC_REPO"); v != "" {
		repoDir = v
	}
	if len(os.Args) < 2 {
		usage()
	}
	defer cleanupWorkDir()
	switch os.Args[1] {
	case "dump", "gen", "prove", "funcs":
		cmdDev(os.Args[1], os.Args[2:])
	case "check":
		rc := cmdCheck(os.Args[2:])
		cleanupWorkDir()
		os.Exit(rc)
	case "replay":
		if len(os.Args) < 3 {
			usage()
		}
		rc := cmdReplay(os.Args[2])
		cleanupWorkDir()
		os.Exit(rc)
	default:
		usage()
	}
}

func mustLoad() *Engine {
	e, err := loadEngine(repoDir, verifDir+"/speclib")
	if err != nil {
		fmt.Fprintln(os.Stderr, "engine error:", err)
		cleanupWorkDir()
		os.Exit(2)
	}
	return e
}

func cmdDev(cmd string, args []string) {
	fs := flag.NewFlagSet(cmd, flag.ExitOnError)
	timeout := fs.Int("t", 10, "solver timeout seconds")
	smtDir := fs.String("smt", "", "write queries of non-proved obligations here")
	verbose := fs.Bool("v", false, "verbose")
	only := fs.String("only", "", "substring filter on obligation names")
	cover := fs.Bool("cover", false, "also check reachability (vacuity) of every obligation")
	p1 := fs.Bool("p1", false, "phase 1 only: one solver, short timeout (fast triage)")
	fs.Parse(args)
	e := mustLoad()
	switch cmd {
	case "funcs":
		var ks []string
		for k := range e.funcs {
			ks = append(ks, k)
		}
		sort.Strings(ks)
		for _, k := range ks {
			fmt.Println(k, e.effectList(e.funcs[k]))
		}
		return
	case "dump":
		for _, k := range fs.Args() {
			f := e.funcs[k]
			if f == nil {
				fmt.Println("no such function", k)
				continue
			}
			f.WriteTo(os.Stdout)
		}
		return
	}
	var obls []*Obligation
	for _, a := range fs.Args() {
		if a == "lemmas" {
			for _, o := range e.genLemmas().obls {
				if *only == "" || strings.Contains(o.Name, *only) {
					obls = append(obls, o)
				}
			}
		}
	}
	for _, k := range expandFuncs(e, fs.Args()) {
		f := e.funcs[k]
		fc, err := e.genFunction(f)
		if err != nil {
			fmt.Println("ERROR", err)
			continue
		}
		if *verbose || cmd == "gen" {
			for _, a := range fc.abstracted {
				fmt.Println("  abstracted:", k, a)
			}
			for a := range fc.unmodelled {
				fmt.Println("  unmodelled:", k, a)
			}
		}
		for _, o := range fc.obls {
			if *only == "" || strings.Contains(o.Name, *only) {
				obls = append(obls, o)
			}
		}
	}
	if cmd == "gen" {
		for _, o := range obls {
			fmt.Printf("%-90s %s  %s\n", o.Name, o.Pos, o.Desc)
		}
		fmt.Println(len(obls), "obligations")
		return
	}
	header := e.u
	t0 := time.Now()
	phase1Only = *p1
	runObligations(obls, header, time.Duration(*timeout)*time.Second, false)
	np := 0
	for _, o := range obls {
		if o.Status == "unsat" {
			np++
			if *verbose {
				fmt.Printf("proved   %-80s %s %.2fs\n", o.Name, o.Solver, o.Seconds)
			}
			continue
		}
		fmt.Printf("%-8s %-80s %s %s %.2fs  -- %s\n", o.Status, o.Name, o.Pos, o.Solver, o.Seconds, o.Desc)
		if *smtDir != "" {
			os.MkdirAll(*smtDir, 0o755)
			os.WriteFile(*smtDir+"/"+sanitize(o.Name)+".smt2", []byte(o.Query(header, true)), 0o644)
		}
		if o.Status == "sat" && *verbose {
			m := parseModelScalars(o.Output)
			for lbl, term := range o.Inputs {
				if v, ok := m[term]; ok {
					fmt.Printf("      %s = %s\n", lbl, v)
				}
			}
		}
	}
	fmt.Printf("%d/%d proved in %.1fs\n", np, len(obls), time.Since(t0).Seconds())
	if *cover {
		vac := runCovers(obls, header, time.Duration(*timeout)*time.Second)
		for _, o := range vac {
			fmt.Println("VACUOUS/unknown cover:", o.Name, o.Pos)
		}
		fmt.Printf("covers: %d/%d reachable\n", len(obls)-len(vac), len(obls))
	}
}

func expandFuncs(e *Engine, pats []string) []string {
	var out []string
	seen := map[string]bool{}
	var all []string
	for k := range e.funcs {
		all = append(all, k)
	}
	sort.Strings(all)
	for _, p := range pats {
		if strings.HasSuffix(p, "*") {
			for _, k := range all {
				if strings.HasPrefix(k, strings.TrimSuffix(p, "*")) && !seen[k] {
					seen[k] = true
					out = append(out, k)
				}
			}
			continue
		}
		if _, ok := e.funcs[p]; ok && !seen[p] {
			seen[p] = true
			out = append(out, p)
		} else if !ok && p != "lemmas" {
			fmt.Fprintln(os.Stderr, "warning: no function", p)
		}
	}
	return out
}

// runObligations discharges obligations in three phases so that machine load cannot turn a proof into
// a timeout: (1) z3 5.x alone, short timeout, 16 at a time; (2) the full portfolio raced for what is
// left; (3) one more portfolio attempt with a long timeout and little parallelism.
func runObligations(obls []*Obligation, header *Universe, timeout time.Duration, all bool) {
	var todo []*Obligation
	for _, o := range obls {
		if o.Cond == "true" || o.Reach == "false" {
			o.Status, o.Solver = "unsat", "syntactic"
			continue
		}
		todo = append(todo, o)
	}
	phase := func(list []*Obligation, par int, fn func(o *Obligation)) {
		sem := make(chan struct{}, par)
		var wg sync.WaitGroup
		for _, o := range list {
			wg.Add(1)
			sem <- struct{}{}
			go func(o *Obligation) {
				defer wg.Done()
				defer func() { <-sem }()
				fn(o)
			}(o)
		}
		wg.Wait()
	}
	pending := func() []*Obligation {
		var p []*Obligation
		for _, o := range todo {
			if o.Status != "unsat" && o.Status != "sat" && o.Status != "disagree" {
				p = append(p, o)
			}
		}
		return p
	}
	if !all {
		short := 4 * time.Second
		if timeout < short {
			short = timeout
		}
		phase(todo, 16, func(o *Obligation) {
			q := o.Query(header, true)
			r := runSolver(solvers[0], q, filepath.Join(getWorkDir(), fmt.Sprintf("p1_%d", time.Now().UnixNano())), short, context.Background())
			o.Seconds += r.Seconds
			if r.Status == "unsat" || r.Status == "sat" {
				o.Status, o.Solver, o.Output = r.Status, r.Solver, r.Output
			} else {
				o.Status, o.Solver, o.Output = "unknown", r.Solver, r.Output
			}
		})
	}
	if phase1Only {
		return
	}
	phase(pending(), 5, func(o *Obligation) {
		r, _ := solve(o.Query(header, true), o.Name, timeout, all)
		o.Status, o.Solver, o.Output = r.Status, r.Solver, r.Output
		o.Seconds += r.Seconds
	})
	phase(pending(), 3, func(o *Obligation) {
		r, _ := solve(o.Query(header, true), o.Name, 4*timeout, false)
		o.Status, o.Solver, o.Output = r.Status, r.Solver, r.Output
		o.Seconds += r.Seconds
	})
}

// runCovers returns the obligations whose program point could not be shown reachable.
func runCovers(obls []*Obligation, header *Universe, timeout time.Duration) []*Obligation {
	sem := make(chan struct{}, 16)
	var wg sync.WaitGroup
	var mu sync.Mutex
	var vac []*Obligation
	for _, o := range obls {
		if o.Kind == "lemma" {
			continue
		}
		wg.Add(1)
		sem <- struct{}{}
		go func(o *Obligation) {
			defer wg.Done()
			defer func() { <-sem }()
			r, _ := solve(o.CoverQuery(header), "cover_"+o.Name, timeout, false)
			// only a definite "unsat" means the program point is unreachable under the assumptions;
			// "unknown" (typical with quantified assumptions) is not evidence of vacuity
			o.Cover = r.Status
			if r.Status == "unsat" && debugCoverDir != "" {
				os.MkdirAll(debugCoverDir, 0o755)
				os.WriteFile(debugCoverDir+"/"+sanitize(o.Name)+".smt2", []byte(o.CoverQuery(header)), 0o644)
			}
			if r.Status == "unsat" {
				mu.Lock()
				vac = append(vac, o)
				mu.Unlock()
			}
		}(o)
	}
	wg.Wait()
	return vac
}

func init() { debugCoverDir = os.Getenv("STICKVC_COVERDIR") }

var debugCoverDir string

var phase1Only bool
