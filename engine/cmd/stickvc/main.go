package main

import (
	"context"
	"flag"
	"path/filepath"
	"fmt"
	"os"
	"sort"
	"strings"
	"sync"
	"time"
)

func usage() {
	fmt.Fprintln(os.Stderr, `usage:
  stickvc dump <funcKey>                     print SSA of a function
  stickvc gen <funcKey>...                   list obligations of functions
  stickvc prove [-t sec] [-smt dir] <funcKey>...   discharge obligations of functions
  stickvc check <Cxx> [--tier quick|thorough]      run a property check
  stickvc funcs                              list function keys`)
	os.Exit(2)
}

var verifDir = "/verif"
var repoDir = "/repo"

func main() {
	if v := os.Getenv("STICKVC_VERIF"); v != "" {
		verifDir = v
	}
	if v := os.Getenv("STICKVC_REPO"); v != "" {
		repoDir = v
	}
	if len(os.Args) < 2 {
		usage()
	}
	defer cleanupWorkDir()
	switch os.Args[1] {
	case "dump", "gen", "prove", "funcs":
		cmdDev(os.Args[1], os.Args[2:])
	case "probes":
		e := mustLoad()
		bad, n := runProbes(e, 10*time.Second)
		for _, b := range bad {
			fmt.Println("PROBE-FAIL", b)
		}
		fmt.Printf("probes: %d run, %d failed\n", n, len(bad))
		cleanupWorkDir()
		if len(bad) > 0 {
			os.Exit(2)
		}
		os.Exit(0)
	case "check":
		rc := cmdCheck(os.Args[2:])
		cleanupWorkDir()
		os.Exit(rc)
	case "replay":
		if len(os.Args) < 3 {
			usage()
		}
		rc := cmdReplay(os.Args[2])
		cleanupWorkDir()
		os.Exit(rc)
	default:
		usage()
	}
}

func mustLoad() *Engine {
	e, err := loadEngine(repoDir, verifDir+"/speclib")
	if err != nil {
		fmt.Fprintln(os.Stderr, "engine error:", err)
		cleanupWorkDir()
		os.Exit(2)
	}
	return e
}

func cmdDev(cmd string, args []string) {
	fs := flag.NewFlagSet(cmd, flag.ExitOnError)
	timeout := fs.Int("t", 10, "solver timeout seconds")
	smtDir := fs.String("smt", "", "write queries of non-proved obligations here")
	verbose := fs.Bool("v", false, "verbose")
	only := fs.String("only", "", "substring filter on obligation names")
	cover := fs.Bool("cover", false, "also check reachability (vacuity) of every obligation")
	p1 := fs.Bool("p1", false, "phase 1 only: one solver, short timeout (fast triage)")
	fs.Parse(args)
	e := mustLoad()
	switch cmd {
	case "funcs":
		var ks []string
		for k := range e.funcs {
			ks = append(ks, k)
		}
		sort.Strings(ks)
		for _, k := range ks {
			fmt.Println(k, e.effectList(e.funcs[k]))
		}
		return
	case "dump":
		for _, k := range fs.Args() {
			f := e.funcs[k]
			if f == nil {
				fmt.Println("no such function", k)
				continue
			}
			f.WriteTo(os.Stdout)
		}
		return
	}
	var obls []*Obligation
	for _, a := range fs.Args() {
		if a == "lemmas" {
			for _, o := range e.genLemmas().obls {
				if *only == "" || strings.Contains(o.Name, *only) {
					obls = append(obls, o)
				}
			}
		}
	}
	for _, k := range expandFuncs(e, fs.Args()) {
		f := e.funcs[k]
		fc, err := e.genFunction(f)
		if err != nil {
			fmt.Println("ERROR", err)
			continue
		}
		if *verbose || cmd == "gen" {
			for _, a := range fc.abstracted {
				fmt.Println("  abstracted:", k, a)
			}
			for a := range fc.unmodelled {
				fmt.Println("  unmodelled:", k, a)
			}
		}
		for _, o := range fc.obls {
			if *only == "" || strings.Contains(o.Name, *only) {
				obls = append(obls, o)
			}
		}
	}
	if cmd == "gen" {
		for _, o := range obls {
			fmt.Printf("%-90s %s  %s\n", o.Name, o.Pos, o.Desc)
		}
		fmt.Println(len(obls), "obligations")
		return
	}
	header := e.u
	t0 := time.Now()
	phase1Only = *p1
	runObligations(obls, header, time.Duration(*timeout)*time.Second, os.Getenv("STICKVC_ALL") != "")
	np := 0
	for _, o := range obls {
		if o.Status == "unsat" {
			np++
			if *verbose {
				fmt.Printf("proved   %-80s %s %.2fs\n", o.Name, o.Solver, o.Seconds)
			}
			continue
		}
		fmt.Printf("%-8s %-80s %s %s %.2fs  -- %s\n", o.Status, o.Name, o.Pos, o.Solver, o.Seconds, o.Desc)
		if *smtDir != "" {
			os.MkdirAll(*smtDir, 0o755)
			os.WriteFile(*smtDir+"/"+sanitize(o.Name)+".smt2", []byte(o.Query(header, true)), 0o644)
		}
		if o.Status == "sat" && *verbose {
			m := parseModelScalars(o.Output)
			for lbl, term := range o.Inputs {
				if v, ok := m[term]; ok {
					fmt.Printf("      %s = %s\n", lbl, v)
				}
			}
		}
	}
	fmt.Printf("%d/%d proved in %.1fs\n", np, len(obls), time.Since(t0).Seconds())
	if *cover {
		vac := runCovers(obls, header, time.Duration(*timeout)*time.Second)
		for _, o := range vac {
			fmt.Println("VACUOUS/unknown cover:", o.Name, o.Pos)
		}
		fmt.Printf("covers: %d/%d reachable\n", len(obls)-len(vac), len(obls))
	}
}

func expandFuncs(e *Engine, pats []string) []string {
	var out []string
	seen := map[string]bool{}
	var all []string
	for k := range e.funcs {
		all = append(all, k)
	}
	sort.Strings(all)
	for _, p := range pats {
		if strings.HasSuffix(p, "*") {
			for _, k := range all {
				if strings.HasPrefix(k, strings.TrimSuffix(p, "*")) && !seen[k] {
					seen[k] = true
					out = append(out, k)
				}
			}
			continue
		}
		if _, ok := e.funcs[p]; ok && !seen[p] {
			seen[p] = true
			out = append(out, p)
		} else if !ok && p != "lemmas" {
			fmt.Fprintln(os.Stderr, "warning: no function", p)
		}
	}
	return out
}

// runObligations discharges obligations in three phases so that machine load cannot turn a proof into
// a timeout: (1) z3 5.x alone, short timeout, 16 at a time; (2) the full portfolio raced for what is
// left; (3) one more portfolio attempt with a long timeout and little parallelism.
func runObligations(obls []*Obligation, header *Universe, timeout time.Duration, all bool) {
	var todo []*Obligation
	for _, o := range obls {
		if o.Cond == "true" || o.Reach == "false" {
			o.Status, o.Solver = "unsat", "syntactic"
			continue
		}
		todo = append(todo, o)
	}
	phase := func(list []*Obligation, par int, fn func(o *Obligation)) {
		sem := make(chan struct{}, par)
		var wg sync.WaitGroup
		for _, o := range list {
			wg.Add(1)
			sem <- struct{}{}
			go func(o *Obligation) {
				defer wg.Done()
				defer func() { <-sem }()
				fn(o)
			}(o)
		}
		wg.Wait()
	}
	pending := func() []*Obligation {
		var p []*Obligation
		for _, o := range todo {
			if o.Status != "unsat" && o.Status != "sat" && o.Status != "disagree" {
				p = append(p, o)
			}
		}
		return p
	}
	tm := func(label string, t0 time.Time) {
		if os.Getenv("STICKVC_TIMING") != "" {
			n := 0
			for _, o := range todo {
				if o.Status == "unsat" {
					n++
				}
			}
			fmt.Fprintf(os.Stderr, "TIMING %s %.1fs proved=%d/%d\n", label, time.Since(t0).Seconds(), n, len(todo))
		}
	}
	t0 := time.Now()
	if !all {
		runBatches(todo, header)
	}
	tm("batch", t0)
	if !all {
		short := 4 * time.Second
		if timeout < short {
			short = timeout
		}
		phase(pending(), 8, func(o *Obligation) {
			// both z3 versions raced: each decides goals on which the other times out
			q := o.Query(header, true)
			ctx, cancel := context.WithCancel(context.Background())
			defer cancel()
			ch := make(chan SolverResult, 2)
			for _, sp := range solvers[:2] {
				go func(sp solverSpec) {
					ch <- runSolver(sp, q, filepath.Join(getWorkDir(), fmt.Sprintf("p1_%s_%d", sp.name, time.Now().UnixNano())), short, ctx)
				}(sp)
			}
			o.Status = "unknown"
			for i := 0; i < 2; i++ {
				r := <-ch
				if r.Seconds > o.Seconds {
					o.Seconds = r.Seconds
				}
				if r.Status == "unsat" || r.Status == "sat" {
					o.Status, o.Solver, o.Output = r.Status, r.Solver, r.Output
					break
				}
				o.Solver, o.Output = r.Solver, r.Output
			}
		})
	}
	tm("phase1", t0)
	if phase1Only {
		return
	}
	phase(pending(), 5, func(o *Obligation) {
		r, _ := solve(o.Query(header, true), o.Name, timeout, all)
		o.Status, o.Solver, o.Output = r.Status, r.Solver, r.Output
		o.Seconds += r.Seconds
	})
	tm("phase2", t0)
	phase(pending(), 3, func(o *Obligation) {
		r, _ := solve(o.Query(header, true), o.Name, 4*timeout, false)
		o.Status, o.Solver, o.Output = r.Status, r.Solver, r.Output
		o.Seconds += r.Seconds
	})
	tm("phase3", t0)
}

// runCovers returns the obligations whose program point is provably unreachable under the assumptions
// (a definite "unsat" of prefix + reach; "unknown" is not evidence of vacuity). The covers of one block
// are checked in one incremental session with a short per-check budget.
func runCovers(obls []*Obligation, header *Universe, timeout time.Duration) []*Obligation {
	type gkey struct {
		sc  *Script
		blk int
	}
	groups := map[gkey][]*Obligation{}
	var order []gkey
	for _, o := range obls {
		if o.Kind == "lemma" || o.script == nil {
			continue
		}
		k := gkey{o.script, o.Blk}
		if _, ok := groups[k]; !ok {
			order = append(order, k)
		}
		groups[k] = append(groups[k], o)
	}
	sem := make(chan struct{}, 16)
	var wg sync.WaitGroup
	var mu sync.Mutex
	var vac []*Obligation
	for _, k := range order {
		g := groups[k]
		wg.Add(1)
		sem <- struct{}{}
		go func(g []*Obligation) {
			defer wg.Done()
			defer func() { <-sem }()
			sort.SliceStable(g, func(i, j int) bool { return g[i].Prefix < g[j].Prefix })
			var body strings.Builder
			next := 0
			first := g[0]
			maxP := g[len(g)-1].Prefix
			for i := 0; i <= maxP; i++ {
				for next < len(g) && g[next].Prefix == i {
					fmt.Fprintf(&body, "(push 1)\n(assert %s)\n(check-sat)\n(pop 1)\n", g[next].Reach)
					next++
				}
				if i < maxP && first.relevant(i) {
					body.WriteString(first.script.lines[i])
					body.WriteString("\n")
				}
			}
			text := body.String()
			q := header.headerFor(text) + text
			r := runBatchSolver(solvers[0], q, filepath.Join(getWorkDir(), fmt.Sprintf("cv_%d", time.Now().UnixNano())), 1500*time.Millisecond, time.Duration(5+2*len(g))*time.Second, context.Background())
			n := 0
			for _, a := range strings.Fields(r.Output) {
				if a != "sat" && a != "unsat" && a != "unknown" && a != "timeout" {
					continue
				}
				if n < len(g) {
					g[n].Cover = a
					if a == "unsat" {
						if debugCoverDir != "" {
							os.MkdirAll(debugCoverDir, 0o755)
							os.WriteFile(debugCoverDir+"/"+sanitize(g[n].Name)+".smt2", []byte(g[n].CoverQuery(header)), 0o644)
						}
						mu.Lock()
						vac = append(vac, g[n])
						mu.Unlock()
					}
				}
				n++
			}
		}(g)
	}
	wg.Wait()
	return vac
}

func init() { debugCoverDir = os.Getenv("STICKVC_COVERDIR") }

var debugCoverDir string

var phase1Only bool

// runBatches (phase 0): the obligations that arise in the same basic block of the same verification unit
// share their set of relevant assumptions; they are checked in ONE incremental solver session in which
// the script is fed in order and every obligation is checked (push / check-sat / pop) at exactly the
// point where it arises, so that only earlier assumptions are visible to it. Anything not answered
// "unsat" here goes on to the per-obligation phases.
func runBatches(todo []*Obligation, u *Universe) {
	type gkey struct {
		sc  *Script
		blk int
	}
	groups := map[gkey][]*Obligation{}
	var order []gkey
	for _, o := range todo {
		if o.script == nil || o.Kind == "lemma" {
			continue
		}
		k := gkey{o.script, o.Blk}
		if _, ok := groups[k]; !ok {
			order = append(order, k)
		}
		groups[k] = append(groups[k], o)
	}
	sem := make(chan struct{}, 8)
	var wg sync.WaitGroup
	for _, k := range order {
		g := groups[k]
		if len(g) < 2 {
			continue
		}
		wg.Add(1)
		sem <- struct{}{}
		go func(g []*Obligation) {
			defer wg.Done()
			defer func() { <-sem }()
			sort.SliceStable(g, func(i, j int) bool { return g[i].Prefix < g[j].Prefix })
			var body strings.Builder
			next := 0
			first := g[0]
			maxP := g[len(g)-1].Prefix
			for i := 0; i <= maxP; i++ {
				for next < len(g) && g[next].Prefix == i {
					fmt.Fprintf(&body, "(push 1)\n(assert %s)\n(assert (not %s))\n(check-sat)\n(pop 1)\n", g[next].Reach, g[next].Cond)
					next++
				}
				if i < maxP && first.relevant(i) {
					body.WriteString(first.script.lines[i])
					body.WriteString("\n")
				}
			}
			text := body.String()
			q := u.headerFor(text) + text
			ctx, cancel := context.WithCancel(context.Background())
			defer cancel()
			ch := make(chan SolverResult, 2)
			budget := time.Duration(2+len(g)/2) * time.Second
			for _, sp := range solvers[:2] {
				go func(sp solverSpec) {
					ch <- runBatchSolver(sp, q, filepath.Join(getWorkDir(), fmt.Sprintf("b0_%s_%d", sp.name, time.Now().UnixNano())), 3*time.Second, budget+10*time.Second, ctx)
				}(sp)
			}
			for i := 0; i < 2; i++ {
				r := <-ch
				answers := strings.Fields(r.Output)
				n := 0
				for _, a := range answers {
					if a != "sat" && a != "unsat" && a != "unknown" && a != "timeout" {
						continue
					}
					if n < len(g) && a == "unsat" && g[n].Status != "unsat" {
						g[n].Status, g[n].Solver, g[n].Seconds = "unsat", r.Solver+"(batch)", r.Seconds/float64(len(g))
					}
					n++
				}
				done := true
				for _, o := range g {
					if o.Status != "unsat" {
						done = false
					}
				}
				if done {
					break
				}
			}
		}(g)
	}
	wg.Wait()
}
