package main

// Evaluation of contract expressions to SMT terms.

import (
	"go/ast"
	"fmt"
	"go/constant"
	"go/types"
	"golang.org/x/tools/go/ssa"
	"regexp"
	"sort"
	"strings"
)

type specEnv struct {
	inQuant bool // evaluating under a quantifier: no side assumptions may be emitted
	fc       *fnCtx
	fr       *frame
	vars     map[string]TV
	st       *state
	old      *state
	prev     *state
	prevVars map[string]TV
	entry    *state
	rec      map[string]bool // records heap keys read (for opaque predicates)
	pkg      string
	src      string
}

func (fr *frame) specEnv(st, old *state) *specEnv {
	env := &specEnv{fc: fr.fc, fr: fr, vars: map[string]TV{}, st: st, old: old}
	top := fr.fn
	for top.Parent() != nil {
		top = top.Parent()
	}
	if top.Pkg != nil {
		env.pkg = shortPkg(top.Pkg.Pkg.Path())
	}
	for k, v := range fr.params {
		env.vars[k] = v
	}
	return env
}

func (env *specEnv) fail(format string, a ...interface{}) {
	fail("contract %q: %s", env.src, fmt.Sprintf(format, a...))
}

func (env *specEnv) evalBool(e SExpr, src string) string {
	env.src = src
	tv := env.eval(e)
	if tv.Sort != "Bool" {
		env.fail("expected Bool, got %s", tv.Sort)
	}
	return tv.T
}

func (env *specEnv) heap(key string) string {
	if env.st == nil {
		env.fail("heap access outside a state (axiom?)")
	}
	if env.rec != nil {
		env.rec[key] = true
	}
	return env.fc.hget(env.st, key)
}

func (env *specEnv) u() *Universe { return env.fc.e.u }

func (env *specEnv) eval(e SExpr) TV {
	u := env.u()
	switch x := e.(type) {
	case *SInt:
		return TV{T: smtInt(x.V), Sort: "Int"}
	case *SBool:
		if x.V {
			return TV{T: "true", Sort: "Bool"}
		}
		return TV{T: "false", Sort: "Bool"}
	case *SStr:
		return TV{T: u.lit(x.V), Sort: "Str", Typ: types.Typ[types.String]}
	case *SNil:
		return TV{T: "0", Sort: "nil"}
	case *SIdent:
		if v, ok := env.vars[x.Name]; ok {
			return v
		}
		if env.fr != nil && env.st != nil {
			if tv, ok := env.fr.addrLocal(env.st, x.Name); ok {
				return tv
			}
		}
		if tv, ok := env.pkgConst(x.Name); ok {
			return tv
		}
		if tv, ok := env.pkgVar(x.Name); ok {
			return tv
		}
		env.fail("unknown identifier %s", x.Name)
	case *SOld:
		if env.old == nil {
			env.fail("old() without an old state")
		}
		sub := *env
		sub.st = env.old
		if env.fr != nil && len(env.fr.params) > 0 && env.fr.old == env.old {
			// inside old() a parameter name means its value on entry, even where the body has reassigned it
			sub.vars = copyVars(env.vars)
			for k, v := range env.fr.params {
				sub.vars[k] = v
			}
		}
		return sub.eval(x.X)
	case *SEntry:
		if env.entry == nil {
			env.fail("entry() outside a loop clause")
		}
		sub := *env
		sub.st = env.entry
		return sub.eval(x.X)
	case *SPrev:
		if env.prev == nil {
			env.fail("prev() outside a loop step clause")
		}
		sub := *env
		sub.st = env.prev
		if env.prevVars != nil {
			sub.vars = copyVars(env.vars)
			for k, v := range env.prevVars {
				sub.vars[k] = v
			}
		}
		return sub.eval(x.X)
	case *SUnary:
		v := env.eval(x.X)
		switch x.Op {
		case "!":
			return TV{T: not(v.T), Sort: "Bool"}
		case "-":
			return TV{T: "(- " + v.T + ")", Sort: v.Sort}
		}
	case *SIte:
		c := env.eval(x.C)
		a := env.eval(x.A)
		b := env.eval(x.B)
		a, b = env.unifyNil(a, b)
		return TV{T: ite(c.T, a.T, b.T), Sort: a.Sort, Typ: a.Typ}
	case *SBinary:
		return env.evalBinary(x)
	case *SSel:
		return env.evalSel(x)
	case *SIndex:
		b := env.eval(x.X)
		i := env.eval(x.I)
		switch b.Sort {
		case "Str":
			return TV{T: fmt.Sprintf("(sat %s %s)", b.T, i.T), Sort: "Int"}
		case "Slice":
			st, _ := b.Typ.Underlying().(*types.Slice)
			if st == nil {
				env.fail("index on slice of unknown element type")
			}
			es := u.sortOf(st.Elem())
			return TV{T: fmt.Sprintf("(select (select %s (sref %s)) (sidx (soff %s) %s))", env.heap(u.arrKey(st.Elem())), b.T, b.T, i.T), Sort: es, Typ: st.Elem()}
		case "Int":
			if b.Typ != nil {
				if mt, ok := b.Typ.Underlying().(*types.Map); ok {
					_, mv, ks, vs := env.fc.e.mapKeys(b.Typ)
					k := env.mapKey(i, ks)
					return TV{T: fmt.Sprintf("(select (select %s %s) %s)", env.heap(mv), b.T, k), Sort: vs, Typ: mt.Elem()}
				}
			}
		}
		if strings.HasPrefix(b.Sort, "(Array Int ") {
			es := strings.TrimSuffix(strings.TrimPrefix(b.Sort, "(Array Int "), ")")
			return TV{T: app("select", b.T, i.T), Sort: es, Typ: u.sortTypes[es]}
		}
		env.fail("cannot index %s", b.Sort)
	case *SSlice:
		b := env.eval(x.X)
		lo := "0"
		if x.Lo != nil {
			lo = env.eval(x.Lo).T
		}
		switch b.Sort {
		case "Str":
			hi := app("slen", b.T)
			if x.Hi != nil {
				hi = env.eval(x.Hi).T
			}
			return TV{T: fmt.Sprintf("(ssub %s %s %s)", b.T, lo, hi), Sort: "Str", Typ: b.Typ}
		case "Slice":
			hi := app("sllen", b.T)
			if x.Hi != nil {
				hi = env.eval(x.Hi).T
			}
			return TV{T: fmt.Sprintf("(mkslice (sref %s) (+ (soff %s) %s) (- %s %s))", b.T, b.T, lo, hi, lo), Sort: "Slice", Typ: b.Typ}
		}
		env.fail("cannot slice %s", b.Sort)
	case *SCall:
		return env.evalCall(x)
	case *SQuant:
		if x.Bounded {
			var parts []string
			for k := x.Lo; k < x.Hi; k++ {
				sub := *env
				sub.vars = copyVars(env.vars)
				sub.vars[x.Vars[0]] = TV{T: smtInt(k), Sort: "Int"}
				parts = append(parts, sub.eval(x.Body).T)
			}
			if x.Forall {
				return TV{T: and(parts...), Sort: "Bool"}
			}
			return TV{T: or(parts...), Sort: "Bool"}
		}
		sub := *env
		sub.vars = copyVars(env.vars)
		sub.inQuant = true
		var decls []string
		for i, v := range x.Vars {
			n := env.fc.sc.fresh("q_" + v)
			srt := "Int"
			if i < len(x.Sorts) {
				srt = x.Sorts[i]
			}
			sub.vars[v] = TV{T: n, Sort: srt}
			if srt == "StrKey" {
				decls = append(decls, fmt.Sprintf("(%s Int)", n))
				continue
			}
			decls = append(decls, fmt.Sprintf("(%s %s)", n, srt))
		}
		body := sub.eval(x.Body)
		q := "exists"
		if x.Forall {
			q = "forall"
		}
		var pats []string
		if x.Trig {
			pats = selectPatterns(body.T, sub.vars, x.Vars)
		}
		if len(pats) > 0 {
			return TV{T: fmt.Sprintf("(%s (%s) (! %s %s))", q, strings.Join(decls, " "), body.T, strings.Join(pats, " ")), Sort: "Bool"}
		}
		return TV{T: fmt.Sprintf("(%s (%s) %s)", q, strings.Join(decls, " "), body.T), Sort: "Bool"}
	}
	env.fail("cannot evaluate %T", e)
	return TV{}
}

func (env *specEnv) mapKey(k TV, ks string) string {
	switch k.Sort {
	case "Str":
		return app("skey", k.T)
	case "Int", "Bool", "StrKey":
		return k.T
	}
	name := "keyid_" + sanitize(k.Sort)
	env.u().global(fmt.Sprintf("(declare-fun %s (%s) Int)", name, k.Sort))
	return app(name, k.T)
}

func (env *specEnv) pkgConst(name string) (TV, bool) {
	e := env.fc.e
	try := func(p *types.Package) (TV, bool) {
		if p == nil {
			return TV{}, false
		}
		obj := p.Scope().Lookup(name)
		c, ok := obj.(*types.Const)
		if !ok {
			return TV{}, false
		}
		switch c.Val().Kind() {
		case constant.Int:
			n, _ := constant.Int64Val(c.Val())
			return TV{T: smtInt(n), Sort: "Int", Typ: c.Type()}, true
		case constant.String:
			return TV{T: e.u.lit(constant.StringVal(c.Val())), Sort: "Str", Typ: c.Type()}, true
		case constant.Bool:
			if constant.BoolVal(c.Val()) {
				return TV{T: "true", Sort: "Bool"}, true
			}
			return TV{T: "false", Sort: "Bool"}, true
		}
		return TV{}, false
	}
	if p := e.pkgByShort(env.pkg); p != nil {
		if tv, ok := try(p.Types); ok {
			return tv, true
		}
	}
	for _, p := range e.pkgs {
		if tv, ok := try(p.Types); ok {
			return tv, true
		}
	}
	return TV{}, false
}

// pkgVar: a package-level variable of the contract's package (its current value: heap key X|pkg.name|sort).
func (env *specEnv) pkgVar(name string) (TV, bool) {
	e := env.fc.e
	p := e.pkgByShort(env.pkg)
	if p == nil || env.st == nil {
		return TV{}, false
	}
	v, ok := p.Types.Scope().Lookup(name).(*types.Var)
	if !ok {
		return TV{}, false
	}
	srt := e.u.sortOf(v.Type())
	return TV{T: env.heap("X|" + p.Types.Name() + "." + name + "|" + srt), Sort: srt, Typ: v.Type()}, true
}

// litString returns the Go string when the spec expression is a string literal or constant.
func (env *specEnv) litString(e SExpr) (string, bool) {
	switch x := e.(type) {
	case *SStr:
		return x.V, true
	case *SIdent:
		if _, ok := env.vars[x.Name]; ok {
			return "", false
		}
		for _, p := range env.fc.e.pkgs {
			if c, ok := p.Types.Scope().Lookup(x.Name).(*types.Const); ok && c.Val().Kind() == constant.String {
				if shortPkg(p.PkgPath) == env.pkg {
					return constant.StringVal(c.Val()), true
				}
			}
		}
	}
	return "", false
}

func (env *specEnv) unifyNil(a, b TV) (TV, TV) {
	conv := func(n TV, o TV) TV {
		switch o.Sort {
		case "Val":
			return TV{T: "nilval", Sort: "Val"}
		case "Slice":
			return TV{T: "nilslice", Sort: "Slice"}
		case "Int":
			return TV{T: "0", Sort: "Int"}
		}
		return n
	}
	if a.Sort == "nil" && b.Sort != "nil" {
		a = conv(a, b)
	}
	if b.Sort == "nil" && a.Sort != "nil" {
		b = conv(b, a)
	}
	return a, b
}

func (env *specEnv) evalBinary(x *SBinary) TV {
	switch x.Op {
	case "&&", "||", "==>", "<==>":
		l := env.eval(x.L)
		r := env.eval(x.R)
		if l.Sort != "Bool" || r.Sort != "Bool" {
			env.fail("operands of %s must be Bool (got %s, %s)", x.Op, l.Sort, r.Sort)
		}
		switch x.Op {
		case "&&":
			return TV{T: and(l.T, r.T), Sort: "Bool"}
		case "||":
			return TV{T: or(l.T, r.T), Sort: "Bool"}
		case "==>":
			return TV{T: implies(l.T, r.T), Sort: "Bool"}
		default:
			return TV{T: eq(l.T, r.T), Sort: "Bool"}
		}
	case "==", "!=":
		l := env.eval(x.L)
		r := env.eval(x.R)
		l, r = env.unifyNil(l, r)
		var t string
		switch {
		case l.Sort == "Str" && r.Sort == "Str":
			var al, bl *string
			if s, ok := env.litString(x.L); ok {
				al = &s
			}
			if s, ok := env.litString(x.R); ok {
				bl = &s
			}
			if env.inQuant && al == nil && bl == nil {
				// under a binder no side facts can be emitted: canonical-key equality only
				t = fmt.Sprintf("(streq %s %s)", l.T, r.T)
			} else if env.inQuant {
				lit, other := al, r.T
				if al == nil {
					lit, other = bl, l.T
				}
				parts := []string{fmt.Sprintf("(= (slen %s) %d)", other, len(*lit))}
				for i := 0; i < len(*lit); i++ {
					parts = append(parts, fmt.Sprintf("(= (sat %s %d) %d)", other, i, (*lit)[i]))
				}
				if al != nil && bl != nil {
					if *al == *bl {
						parts = []string{"true"}
					} else {
						parts = []string{"false"}
					}
				}
				t = and(parts...)
			} else {
				t = env.fc.strEq(l.T, r.T, al, bl)
			}
		case l.Sort == "Slice" && r.T == "nilslice":
			t = fmt.Sprintf("(= (sref %s) 0)", l.T)
		case l.Sort == "Val" && r.T == "nilval":
			t = fmt.Sprintf("(= (vtag %s) 0)", l.T)
		case l.Sort == "Int" && r.Sort == "Real":
			t = eq(app("to_real", l.T), r.T)
		case l.Sort == "Real" && r.Sort == "Int":
			t = eq(l.T, app("to_real", r.T))
		default:
			if l.Sort != r.Sort {
				env.fail("comparison of %s with %s", l.Sort, r.Sort)
			}
			t = eq(l.T, r.T)
		}
		if x.Op == "!=" {
			t = not(t)
		}
		return TV{T: t, Sort: "Bool"}
	case "<", "<=", ">", ">=":
		l := env.eval(x.L)
		r := env.eval(x.R)
		l, r = numUnify(l, r)
		if l.Sort == "Real" {
			return TV{T: fcmp(env.u(), x.Op, l.T, r.T), Sort: "Bool"}
		}
		return TV{T: app(x.Op, l.T, r.T), Sort: "Bool"}
	case "+", "-", "*":
		l := env.eval(x.L)
		r := env.eval(x.R)
		l, r = numUnify(l, r)
		if x.Op == "*" {
			_, cl := x.L.(*SInt)
			_, cr := x.R.(*SInt)
			if !cl && !cr {
				if l.Sort == "Real" {
					env.u().global("(declare-fun rmul (Real Real) Real)")
					return TV{T: app("rmul", l.T, r.T), Sort: "Real"}
				}
				env.u().global("(declare-fun imul (Int Int) Int)")
				return TV{T: app("imul", l.T, r.T), Sort: "Int"}
			}
		}
		return TV{T: app(x.Op, l.T, r.T), Sort: l.Sort}
	case "/":
		l := env.eval(x.L)
		r := env.eval(x.R)
		l, r = numUnify(l, r)
		if l.Sort == "Real" {
			return TV{T: app("/", l.T, r.T), Sort: "Real"}
		}
		return TV{T: app("div", l.T, r.T), Sort: "Int"}
	case "%":
		l := env.eval(x.L)
		r := env.eval(x.R)
		return TV{T: app("mod", l.T, r.T), Sort: "Int"}
	}
	env.fail("unknown operator %s", x.Op)
	return TV{}
}

func numUnify(l, r TV) (TV, TV) {
	if l.Sort == "Int" && r.Sort == "Real" {
		l = TV{T: app("to_real", l.T), Sort: "Real"}
	}
	if l.Sort == "Real" && r.Sort == "Int" {
		r = TV{T: app("to_real", r.T), Sort: "Real"}
	}
	return l, r
}

func (env *specEnv) evalSel(x *SSel) TV {
	u := env.u()
	// package-qualified constant? (parse.OpUnaryNot)
	if id, ok := x.X.(*SIdent); ok {
		if _, isVar := env.vars[id.Name]; !isVar {
			if p := env.fc.e.pkgByShort(id.Name); p != nil {
				sub := *env
				sub.pkg = id.Name
				if tv, ok := sub.pkgConst(x.Name); ok {
					return tv
				}
			}
		}
	}
	b := env.eval(x.X)
	if b.Typ == nil {
		env.fail("selector .%s on value of unknown Go type", x.Name)
	}
	t := b.Typ
	// ghost fields
	if named := namedOf(t); named != nil {
		gk := qualName(named) + "." + x.Name
		if gs, ok := u.ghost[gk]; ok {
			return TV{T: app("select", env.heap("G|"+gk+"|"+gs), b.T), Sort: gs}
		}
	}
	obj, path, _ := types.LookupFieldOrMethod(t, true, nil, x.Name)
	if obj == nil {
		// unexported field from another package: retry with the package of the type
		if named := namedOf(t); named != nil && named.Obj().Pkg() != nil {
			obj, path, _ = types.LookupFieldOrMethod(t, true, named.Obj().Pkg(), x.Name)
		}
	}
	fv, ok := obj.(*types.Var)
	if !ok || fv == nil {
		env.fail("no field %s in %s", x.Name, t)
	}
	cur := b
	for _, idx := range path {
		ct := cur.Typ
		if pt, ok := ct.Underlying().(*types.Pointer); ok {
			// heap field
			key, srt, _ := u.fieldKey(pt.Elem(), idx)
			if key == "" {
				env.fail("field of non-struct pointer %s", ct)
			}
			st := pt.Elem().Underlying().(*types.Struct)
			cur = TV{T: app("select", env.heap(key), cur.T), Sort: srt, Typ: st.Field(idx).Type()}
			continue
		}
		si := u.structInfoOf(ct)
		if si == nil {
			env.fail("field of non-struct %s", ct)
		}
		cur = TV{T: app(si.fields[idx], cur.T), Sort: si.sorts[idx], Typ: si.typ.Field(idx).Type()}
	}
	// representation invariants of heap values read by a contract (unconditional facts)
	if !strings.Contains(cur.T, "q_") {
		if named := namedOf(t); named != nil && env.fc.e.contracts.FieldInv[qualName(named)+"."+x.Name] {
			env.fc.sc.assume(nonNilTerm(cur.T, cur.Sort))
		}
		if cur.Sort == "Int" && cur.Typ != nil && env.st != nil && env.st.alloc != "" {
			switch cur.Typ.Underlying().(type) {
			case *types.Pointer, *types.Map, *types.Chan:
				// a reference stored in the heap of a state was allocated before that state
				env.fc.sc.assume(fmt.Sprintf("(and (<= 0 %s) (< %s %s))", cur.T, cur.T, env.st.alloc))
			}
		}
		switch cur.Sort {
		case "Slice":
			env.fc.sc.assume(fmt.Sprintf("(and (<= 0 (soff %s)) (<= 0 (sllen %s)) (<= 0 (sref %s)) (=> (= (sref %s) 0) (= (sllen %s) 0)))", cur.T, cur.T, cur.T, cur.T, cur.T))
		case "Str":
			env.fc.sc.assume(fmt.Sprintf("(and (<= 0 (slo %s)) (<= (slo %s) (shi %s)))", cur.T, cur.T, cur.T))
		}
	}
	return cur
}

func namedOf(t types.Type) *types.Named {
	t = types.Unalias(t)
	if p, ok := t.(*types.Pointer); ok {
		t = types.Unalias(p.Elem())
	}
	n, _ := t.(*types.Named)
	return n
}

func (env *specEnv) evalCall(x *SCall) TV {
	u := env.u()
	e := env.fc.e
	argn := func(n int) {
		if len(x.Args) != n {
			env.fail("%s expects %d arguments", x.Fn, n)
		}
	}
	switch x.Fn {
	case "len":
		argn(1)
		a := env.eval(x.Args[0])
		switch a.Sort {
		case "Str":
			return TV{T: app("slen", a.T), Sort: "Int"}
		case "Slice":
			return TV{T: app("sllen", a.T), Sort: "Int"}
		}
		env.fail("len of %s", a.Sort)
	case "in": // in(m, k): key present in map
		argn(2)
		m := env.eval(x.Args[0])
		k := env.eval(x.Args[1])
		if m.Typ == nil {
			env.fail("in(): map of unknown type")
		}
		md, _, ks, _ := e.mapKeys(m.Typ)
		return TV{T: fmt.Sprintf("(and (not (= %s 0)) (select (select %s %s) %s))", m.T, env.heap(md), m.T, env.mapKey(k, ks)), Sort: "Bool"}
	case "mdom", "mval": // mdom("map type", m, k) / mval(...): raw access with a canonical key k (Int)
		argn(3)
		ts, ok := x.Args[0].(*SStr)
		if !ok {
			env.fail("%s needs a map type string", x.Fn)
		}
		mt, err := e.resolveType(env.pkg, ts.V)
		if err != nil {
			env.fail("%v", err)
		}
		m := env.eval(x.Args[1])
		k := env.eval(x.Args[2])
		md, mv, _, vs := e.mapKeys(mt)
		if x.Fn == "mdom" {
			return TV{T: fmt.Sprintf("(select (select %s %s) %s)", env.heap(md), m.T, k.T), Sort: "Bool"}
		}
		return TV{T: fmt.Sprintf("(select (select %s %s) %s)", env.heap(mv), m.T, k.T), Sort: vs, Typ: mt.Underlying().(*types.Map).Elem()}
	case "fld": // fld("pkg.Type", "field", ref): the field of the object at a (quantified) reference
		argn(3)
		ts, ok1 := x.Args[0].(*SStr)
		fs, ok2 := x.Args[1].(*SStr)
		if !ok1 || !ok2 {
			env.fail("fld needs type and field strings")
		}
		pk := env.pkg
		tn := ts.V
		if i := strings.Index(tn, "."); i > 0 {
			pk, tn = tn[:i], tn[i+1:]
		}
		t, err := e.resolveType(pk, tn)
		if err != nil {
			env.fail("%v", err)
		}
		r := env.eval(x.Args[2])
		st, ok := t.Underlying().(*types.Struct)
		if !ok {
			env.fail("fld: %s is not a struct", ts.V)
		}
		for i := 0; i < st.NumFields(); i++ {
			if st.Field(i).Name() == fs.V {
				key, srt, _ := u.fieldKey(t, i)
				return TV{T: app("select", env.heap(key), r.T), Sort: srt, Typ: st.Field(i).Type()}
			}
		}
		env.fail("fld: no field %s in %s", fs.V, ts.V)
	case "openfiles": // number of files opened and not yet closed (ghost counter kept by os.Open / (*os.File).Close)
		argn(0)
		return TV{T: env.heap("X|openfiles|Int"), Sort: "Int"}
	case "wfail": // a write to a writer has failed (ghost set by io.WriteString)
		argn(0)
		return TV{T: env.heap("X|wfail|Bool"), Sort: "Bool"}
	case "wafterfail": // a write was attempted after an earlier one had failed
		argn(0)
		return TV{T: env.heap("X|wafterfail|Bool"), Sort: "Bool"}
	case "rbuflen": // rbuflen(w): content length of the writer / buffer object at raw reference w
		argn(1)
		a := env.eval(x.Args[0])
		return TV{T: app("select", env.heap("BL"), a.T), Sort: "Int"}
	case "rbufdata":
		argn(1)
		a := env.eval(x.Args[0])
		return TV{T: app("select", env.heap("BD"), a.T), Sort: "(Array Int Int)"}
	case "keyof": // keyof(s): canonical map key of a string
		argn(1)
		a := env.eval(x.Args[0])
		if a.Sort != "Str" {
			return a
		}
		return TV{T: app("skey", a.T), Sort: "Int"}
	case "tag": // tag(v): dynamic type tag of an interface value
		argn(1)
		a := env.eval(x.Args[0])
		return TV{T: app("vtag", a.T), Sort: "Int"}
	case "istype": // istype(v, "T") with T a Go type expression resolved in the package
		argn(2)
		a := env.eval(x.Args[0])
		ts, ok := x.Args[1].(*SStr)
		if !ok {
			env.fail("istype needs a type string")
		}
		t, err := e.resolveType(env.pkg, ts.V)
		if err != nil {
			env.fail("%v", err)
		}
		if env.fr == nil {
			env.fail("istype outside function")
		}
		return TV{T: env.fr.typeTest(a.T, t), Sort: "Bool"}
	case "unbox": // unbox(v, "T")
		argn(2)
		a := env.eval(x.Args[0])
		ts, ok := x.Args[1].(*SStr)
		if !ok {
			env.fail("unbox needs a type string")
		}
		t, err := e.resolveType(env.pkg, ts.V)
		if err != nil {
			env.fail("%v", err)
		}
		return TV{T: env.fr.unbox(a.T, t), Sort: u.sortOf(t), Typ: t}
	case "fresh": // fresh(r): allocated during the call
		argn(1)
		a := env.eval(x.Args[0])
		if env.old == nil {
			env.fail("fresh() without old state")
		}
		return TV{T: fmt.Sprintf("(>= %s %s)", refOf(a), env.old.alloc), Sort: "Bool"}
	case "allocated": // allocated(r): existed before (old state)
		argn(1)
		a := env.eval(x.Args[0])
		st := env.old
		if st == nil {
			st = env.st
		}
		return TV{T: fmt.Sprintf("(and (> %s 0) (< %s %s))", refOf(a), refOf(a), st.alloc), Sort: "Bool"}
	case "live": // live(r): exists now (allocated in the current state)
		argn(1)
		a := env.eval(x.Args[0])
		return TV{T: fmt.Sprintf("(and (> %s 0) (< %s %s))", refOf(a), refOf(a), env.st.alloc), Sort: "Bool"}
	case "floor", "ceil": // math.Floor / math.Ceil as modelled by the handlers (uninterpreted, bounded by their argument)
		argn(1)
		a := env.eval(x.Args[0])
		t := a.T
		if a.Sort == "Int" {
			t = app("to_real", t)
		}
		name := "rfloor"
		if x.Fn == "ceil" {
			name = "rceil"
		}
		u.global(fmt.Sprintf("(declare-fun %s (Real) Real)", name))
		return TV{T: app(name, t), Sort: "Real"}
	case "called": // called("text"): a call with this source text has been executed on the way here
		argn(1)
		ts, ok := x.Args[0].(*SStr)
		if !ok || env.st == nil {
			env.fail("called needs a string")
		}
		if !env.fc.calledRefs[normText(ts.V)] {
			env.fail("called(%q): not registered", ts.V)
		}
		return TV{T: env.fc.hget(env.st, calledKey(ts.V)), Sort: "Bool"}
	case "incase": // incase("text"): the point of evaluation lies in the switch arm whose case list is text
		argn(1)
		ts, ok := x.Args[0].(*SStr)
		if !ok || env.fr == nil {
			env.fail("incase needs a string")
		}
		cs := strings.Join(strings.Fields(env.fr.anchorText(env.fr.evalPos, "case")), "")
		if cs == strings.Join(strings.Fields(ts.V), "") {
			return TV{T: "true", Sort: "Bool"}
		}
		return TV{T: "false", Sort: "Bool"}
	case "initial": // initial(x): the value the local variable x was given first (before any reassignment)
		argn(1)
		id, ok := x.Args[0].(*SIdent)
		if !ok || env.fr == nil {
			env.fail("initial needs the name of a local variable")
		}
		for _, b := range env.fr.fn.Blocks {
			for _, in := range b.Instrs {
				if dr, ok := in.(*ssa.DebugRef); ok && !dr.IsAddr {
					if di, ok := dr.Expr.(*ast.Ident); ok && di.Name == id.Name {
						if _, isConst := dr.X.(*ssa.Const); isConst {
							continue
						}
						if fv, isVar := dr.Object().(*types.Var); isVar && fv.IsField() {
							continue
						}
						if r, ok := env.fr.regs[dr.X]; ok {
							return TV{T: r, Sort: env.u().sortOf(dr.X.Type()), Typ: dr.X.Type()}
						}
					}
				}
			}
		}
		env.fail("initial(%s): no such local variable in scope", id.Name)
	case "addrof": // addrof(x): the address of the local variable x (a variable whose address is taken in the body)
		argn(1)
		id, ok := x.Args[0].(*SIdent)
		if !ok || env.fr == nil {
			env.fail("addrof needs the name of a local variable")
		}
		for _, b := range env.fr.fn.Blocks {
			for _, in := range b.Instrs {
				if al, ok := in.(*ssa.Alloc); ok && al.Comment == id.Name {
					if r, ok := env.fr.regs[al]; ok {
						return TV{T: r, Sort: "Int", Typ: al.Type()}
					}
				}
			}
		}
		env.fail("unknown identifier %s (addrof)", id.Name)
	case "local": // local(x): the slice or map x has not become reachable from the heap or a callee
		argn(1)
		a := env.eval(x.Args[0])
		r := refOf(a)
		return TV{T: fmt.Sprintf("(or (= %s 0) (not (select %s %s)))", r, env.heap("ESC"), r), Sort: "Bool"}
	case "buflen": // buflen(w): bytes written to buffer object (pointer or interface payload)
		argn(1)
		a := env.eval(x.Args[0])
		return TV{T: app("select", env.heap("BL"), refOf(a)), Sort: "Int"}
	case "bufbyte":
		argn(2)
		a := env.eval(x.Args[0])
		i := env.eval(x.Args[1])
		return TV{T: fmt.Sprintf("(select (select %s %s) %s)", env.heap("BD"), refOf(a), i.T), Sort: "Int"}
	case "bufstr":
		argn(1)
		a := env.eval(x.Args[0])
		return TV{T: fmt.Sprintf("(mkstr (select %s %s) 0 (select %s %s))", env.heap("BD"), refOf(a), env.heap("BL"), refOf(a)), Sort: "Str", Typ: types.Typ[types.String]}
	case "bufdata":
		argn(1)
		a := env.eval(x.Args[0])
		return TV{T: app("select", env.heap("BD"), refOf(a)), Sort: "(Array Int Int)"}
	case "base": // base(s): byte array of a string view
		argn(1)
		a := env.eval(x.Args[0])
		return TV{T: app("sbase", a.T), Sort: "(Array Int Int)"}
	case "lo":
		argn(1)
		a := env.eval(x.Args[0])
		return TV{T: app("slo", a.T), Sort: "Int"}
	case "hi":
		argn(1)
		a := env.eval(x.Args[0])
		return TV{T: app("shi", a.T), Sort: "Int"}
	case "sameview": // structural equality of string views
		argn(2)
		a := env.eval(x.Args[0])
		b := env.eval(x.Args[1])
		return TV{T: eq(a.T, b.T), Sort: "Bool"}
	case "ref": // ref(v): the reference held by a pointer or interface
		argn(1)
		a := env.eval(x.Args[0])
		return TV{T: refOf(a), Sort: "Int"}
	case "hasPrefix":
		argn(2)
		a := env.eval(x.Args[0])
		lit, ok := env.litString(x.Args[1])
		if !ok {
			env.fail("hasPrefix needs a literal prefix")
		}
		return TV{T: hasPrefixTerm(a.T, lit), Sort: "Bool"}
	case "indexof": // indexof(s, "lit"): strings.Index(s, "lit") (the function symbol of the handler)
		argn(2)
		a := env.eval(x.Args[0])
		lit, ok := env.litString(x.Args[1])
		if !ok || len(lit) == 0 {
			env.fail("indexof needs a non-empty literal")
		}
		fn := "str_index_" + sanitize(u.lit(lit))
		u.global(fmt.Sprintf("(declare-fun %s (Str) Int)", fn))
		return TV{T: app(fn, a.T), Sort: "Int"}
	case "hasSuffix": // hasSuffix(s, "lit")
		argn(2)
		a := env.eval(x.Args[0])
		lit, ok := env.litString(x.Args[1])
		if !ok {
			env.fail("hasSuffix needs a literal suffix")
		}
		return TV{T: hasSuffixTerm(a.T, lit), Sort: "Bool"}
	case "sentcount": // number of values sent on channel
		argn(1)
		a := env.eval(x.Args[0])
		return TV{T: app("select", env.heap("G|chan.sent|Int"), a.T), Sort: "Int"}
	case "drained": // drained(ch): some receive on ch has reported "closed and empty"
		argn(1)
		a := env.eval(x.Args[0])
		return TV{T: app("select", env.heap("G|chan.drained|Bool"), a.T), Sort: "Bool"}
	case "closed":
		argn(1)
		a := env.eval(x.Args[0])
		return TV{T: app("select", env.heap("G|chan.closed|Bool"), a.T), Sort: "Bool"}
	case "sent": // sent(ch, i, "T"): i-th value sent on channel of element type T
		argn(3)
		a := env.eval(x.Args[0])
		i := env.eval(x.Args[1])
		ts, ok := x.Args[2].(*SStr)
		if !ok {
			env.fail("sent needs a type string")
		}
		t, err := e.resolveType(env.pkg, ts.V)
		if err != nil {
			env.fail("%v", err)
		}
		srt := u.sortOf(t)
		return TV{T: fmt.Sprintf("(select (select %s %s) %s)", env.heap("GA|chan.vals|"+srt), a.T, i.T), Sort: srt, Typ: t}
	case "fnid": // fnid("parse.lexData"): the value of a function used as a function value
		argn(1)
		ts, ok := x.Args[0].(*SStr)
		if !ok {
			env.fail("fnid needs a function key string")
		}
		if _, ok := e.funcs[ts.V]; !ok {
			env.fail("fnid: no function %s", ts.V)
		}
		return TV{T: u.fnID(ts.V), Sort: "Int"}
	case "visited": // visited(k): the current map range (the last one started in this function) has produced key k
		argn(1)
		if env.fr == nil || env.fr.lastMapRange == "" {
			env.fail("visited() without a range over a map")
		}
		a := env.eval(x.Args[0])
		kt := a.T
		if a.Sort == "Str" {
			kt = app("skey", a.T)
		}
		return TV{T: app("select", app("select", env.heap("ITV|"+env.fr.lastMapRangeKS), env.fr.lastMapRange), kt), Sort: "Bool"}
	case "rangedom0": // rangedom0(k): k was a key of the ranged map when the iteration started
		argn(1)
		if env.fr == nil || env.fr.lastMapRange == "" {
			env.fail("rangedom0() without a range over a map")
		}
		a := env.eval(x.Args[0])
		kt := a.T
		if a.Sort == "Str" {
			kt = app("skey", a.T)
		}
		return TV{T: app("select", env.fr.lastMapDom0, kt), Sort: "Bool"}
	case "rangepos": // byte position of the (last) string range iterator of this function
		argn(0)
		if env.fr == nil || env.fr.lastRange == "" {
			env.fail("rangepos() without a range loop")
		}
		return TV{T: app("select", env.heap("IT"), env.fr.lastRange), Sort: "Int"}
	case "nlcount": // nlcount(s, a, b): number of newlines in s[a:b]
		argn(3)
		u.declareCounting()
		a := env.eval(x.Args[0])
		lo := env.eval(x.Args[1])
		hi := env.eval(x.Args[2])
		return TV{T: fmt.Sprintf("(- (nlcum (sbase %s) (+ (slo %s) %s)) (nlcum (sbase %s) (+ (slo %s) %s)))", a.T, a.T, hi.T, a.T, a.T, lo.T), Sort: "Int"}
	case "linestart": // linestart(s, k): index in s just after the last newline before k (0 if none)
		argn(2)
		u.declareCounting()
		a := env.eval(x.Args[0])
		k := env.eval(x.Args[1])
		raw := fmt.Sprintf("(- (lstartraw (sbase %s) (+ (slo %s) %s)) (slo %s))", a.T, a.T, k.T, a.T)
		return TV{T: fmt.Sprintf("(ite (>= %s 0) %s 0)", raw, raw), Sort: "Int"}
	case "kindof": // kindof(v): reflect.Kind of the dynamic type of interface value v
		argn(1)
		a := env.eval(x.Args[0])
		u.global("(declare-fun kindof (Int) Int)")
		if a.Sort == "Val" {
			return TV{T: app("kindof", app("vtag", a.T)), Sort: "Int"}
		}
		return TV{T: app("kindof", a.T), Sort: "Int"}
	case "box": // box(x, "T"): the interface value holding x with dynamic type T
		argn(2)
		a := env.eval(x.Args[0])
		ts, ok := x.Args[1].(*SStr)
		if !ok {
			env.fail("box needs a type string")
		}
		t, err := e.resolveType(env.pkg, ts.V)
		if err != nil {
			env.fail("%v", err)
		}
		if env.fr == nil {
			env.fail("box outside function")
		}
		if a.Sort == "Int" && u.sortOf(t) == "Real" {
			a.T = app("to_real", a.T)
		}
		return TV{T: env.fr.makeIface(env.st, a.T, t), Sort: "Val"}
	case "b2i":
		argn(1)
		a := env.eval(x.Args[0])
		return TV{T: app("b2i", a.T), Sort: "Int"}
	case "band", "bor", "bxor": // Go's &, |, ^ on integers (uninterpreted, the same symbols the translation uses)
		argn(2)
		a := env.eval(x.Args[0])
		b := env.eval(x.Args[1])
		name := map[string]string{"band": "bit_and", "bor": "bit_or", "bxor": "bit_xor"}[x.Fn]
		u.global(fmt.Sprintf("(declare-fun %s (Int Int) Int)", name))
		return TV{T: app(name, a.T, b.T), Sort: "Int"}
	case "pow": // math.Pow (uninterpreted, the symbol of the handler)
		argn(2)
		a := env.eval(x.Args[0])
		b := env.eval(x.Args[1])
		u.global("(declare-fun rpow (Real Real) Real)")
		at, bt := a.T, b.T
		if a.Sort == "Int" {
			at = app("to_real", at)
		}
		if b.Sort == "Int" {
			bt = app("to_real", bt)
		}
		return TV{T: app("rpow", at, bt), Sort: "Real"}
	case "prefixof", "suffixof": // strings.HasPrefix(s, p) / HasSuffix(s, p) for non-literal p (symbols of the handlers)
		argn(2)
		a := env.eval(x.Args[0])
		b := env.eval(x.Args[1])
		name := map[string]string{"prefixof": "str_hasprefix", "suffixof": "str_hassuffix"}[x.Fn]
		// (over canonical keys: the result depends on the contents only)
		u.global(fmt.Sprintf("(declare-fun %s (Int Int) Bool)", name))
		return TV{T: app(name, app("skey", a.T), app("skey", b.T)), Sort: "Bool"}
	case "concat": // concat(a, b): the string a + b (same symbols as the translation of +)
		argn(2)
		a := env.eval(x.Args[0])
		b := env.eval(x.Args[1])
		u.global("(declare-fun kcat (Int Int) Int)")
		r := app("sconcat", a.T, b.T)
		if !env.inQuant {
			env.fc.sc.assume(fmt.Sprintf("(and (= (skey %s) (kcat (skey %s) (skey %s))) (= (slen %s) (+ (slen %s) (slen %s))))", r, a.T, b.T, r, a.T, b.T))
		}
		return TV{T: r, Sort: "Str", Typ: types.Typ[types.String]}
	case "trunc": // trunc(x): Go's int(x) for a float x
		argn(1)
		a := env.eval(x.Args[0])
		u.global("(declare-fun f2i (Real) Int)")
		r := app("f2i", a.T)
		env.fc.sc.assume(fmt.Sprintf("(=> (and (> %s (- 9000000000000000000.0)) (< %s 9000000000000000000.0)) (ite (>= %s 0.0) (and (<= (to_real %s) %s) (< %s (+ (to_real %s) 1.0))) (and (>= (to_real %s) %s) (> %s (- (to_real %s) 1.0)))))", a.T, a.T, a.T, r, a.T, a.T, r, r, a.T, a.T, r))
		return TV{T: app("f2i", a.T), Sort: "Int"}
	case "real":
		argn(1)
		a := env.eval(x.Args[0])
		if a.Sort == "Real" {
			return a
		}
		return TV{T: app("to_real", a.T), Sort: "Real"}
	}
	if pd, ok := e.contracts.Preds[x.Fn]; ok {
		if len(pd.Params) != len(x.Args) {
			env.fail("pred %s expects %d arguments", x.Fn, len(pd.Params))
		}
		sub := *env
		sub.vars = map[string]TV{}
		sub.pkg = pd.Pkg
		for i, a := range x.Args {
			v := env.eval(a)
			t, err := e.resolveType(pd.Pkg, pd.Types[i])
			if err != nil {
				env.fail("%v", err)
			}
			if v.Sort == "nil" {
				v = TV{T: u.zero(u.sortOf(t)), Sort: u.sortOf(t)}
			}
			v.Typ = t
			sub.vars[pd.Params[i]] = v
		}
		oldsrc := env.src
		if pd.Opaque && !(env.fc.c != nil && env.fc.c.Reveal[pd.Name]) {
			// uninterpreted application over the parameters and the heap arrays the body reads
			keys := e.opaqueKeys(pd, &sub)
			var argT, argS []string
			for _, p := range pd.Params {
				argT = append(argT, sub.vars[p].T)
				argS = append(argS, sub.vars[p].Sort)
			}
			for _, k := range keys {
				argT = append(argT, env.heap(k))
				argS = append(argS, heapSort(u, k))
			}
			name := "op_" + pd.Name
			u.global(fmt.Sprintf("(declare-fun %s (%s) Bool)", name, strings.Join(argS, " ")))
			env.src = oldsrc
			return TV{T: app(name, argT...), Sort: "Bool"}
		}
		r := sub.eval(pd.Body)
		env.src = oldsrc
		return r
	}
	if sf, ok := e.contracts.Specs[x.Fn]; ok {
		if len(sf.Params) != len(x.Args) {
			env.fail("spec function %s expects %d arguments", x.Fn, len(sf.Params))
		}
		var ps []string
		var args []string
		for i, a := range x.Args {
			v := env.eval(a)
			ps = append(ps, fmt.Sprintf("(p%d %s)", i, specSort(sf.Params[i])))
			if sf.SMTBody == "" && specSort(sf.Params[i]) == "Str" && v.Sort == "StrKey" {
				// a variable bound as n:strkey ranges over the canonical keys of strings directly
				args = append(args, v.T)
				continue
			}
			if sf.SMTBody == "" && specSort(sf.Params[i]) == "Str" && v.Sort == "Str" {
				// uninterpreted spec functions see strings through their canonical key (extensional)
				args = append(args, app("skey", v.T))
				continue
			}
			if v.Sort != specSort(sf.Params[i]) {
				if v.Sort == "Int" && specSort(sf.Params[i]) == "Real" {
					v.T = app("to_real", v.T)
				} else {
					env.fail("argument %d of %s: expected %s, got %s", i, x.Fn, specSort(sf.Params[i]), v.Sort)
				}
			}
			args = append(args, v.T)
		}
		name := "sf_" + sf.Name
		e.declareSpec(sf, map[string]bool{})
		return TV{T: app(name, args...), Sort: specSort(sf.Result)}
	}
	env.fail("unknown function %s", x.Fn)
	return TV{}
}

func refOf(a TV) string {
	switch a.Sort {
	case "Val":
		return app("vpay", a.T)
	case "Slice":
		return app("sref", a.T)
	}
	return a.T
}

func hasPrefixTerm(s string, lit string) string {
	parts := []string{fmt.Sprintf("(>= (slen %s) %d)", s, len(lit))}
	for i := 0; i < len(lit); i++ {
		parts = append(parts, fmt.Sprintf("(= (sat %s %d) %d)", s, i, lit[i]))
	}
	return and(parts...)
}

var sfRef = regexp.MustCompile(`sf_([A-Za-z0-9_]+)`)

// declareSpec emits the declaration of a spec function after the ones its body refers to.
func (e *Engine) declareSpec(sf *SpecFunc, busy map[string]bool) {
	if busy[sf.Name] {
		return
	}
	busy[sf.Name] = true
	u := e.u
	name := "sf_" + sf.Name
	var ps, pss []string
	for i, p := range sf.Params {
		ps = append(ps, fmt.Sprintf("(p%d %s)", i, specSort(p)))
		pss = append(pss, specSort(p))
	}
	if sf.SMTBody != "" {
		for _, m := range sfRef.FindAllStringSubmatch(sf.SMTBody, -1) {
			if dep, ok := e.contracts.Specs[m[1]]; ok && dep != sf {
				e.declareSpec(dep, busy)
			}
		}
		u.global(fmt.Sprintf("(define-fun %s (%s) %s %s)", name, strings.Join(ps, " "), specSort(sf.Result), sf.SMTBody))
	} else {
		for i := range pss {
			if pss[i] == "Str" {
				pss[i] = "Int"
			}
		}
		u.global(fmt.Sprintf("(declare-fun %s (%s) %s)", name, strings.Join(pss, " "), specSort(sf.Result)))
	}
}

// opaqueKeys returns (cached) the sorted heap keys the body of an opaque predicate reads.
var opaqueKeyCache = map[string][]string{}

func (e *Engine) opaqueKeys(pd *PredDef, sub *specEnv) []string {
	if ks, ok := opaqueKeyCache[pd.Name]; ok {
		return ks
	}
	rec := *sub
	rec.rec = map[string]bool{}
	// evaluate on a scratch script so that nothing leaks into the real one
	save := rec.fc.sc
	scratch := &Script{n: save.n}
	rec.fc.sc = scratch
	h0 := rec.fc.heap0
	rec.fc.heap0 = map[string]string{}
	for k, v := range h0 {
		rec.fc.heap0[k] = v
	}
	func() {
		defer func() {
			rec.fc.sc = save
			rec.fc.heap0 = h0
		}()
		rec.eval(pd.Body)
	}()
	var ks []string
	for k := range rec.rec {
		ks = append(ks, k)
	}
	sort.Strings(ks)
	opaqueKeyCache[pd.Name] = ks
	return ks
}

// selectPatterns: the innermost select/sat applications that mention the bound variable in their
// index argument (and nowhere in the array argument) are used as alternative E-matching patterns.
func selectPatterns(body string, vars map[string]TV, names []string) []string {
	if len(names) != 1 {
		return nil
	}
	q := vars[names[0]].T
	seen := map[string]bool{}
	var pats []string
	// positions of "(" for every open application enclosing the current position
	var stack []int
	for i := 0; i < len(body); i++ {
		switch body[i] {
		case '(':
			stack = append(stack, i)
		case ')':
			if len(stack) > 0 {
				stack = stack[:len(stack)-1]
			}
		default:
			if strings.HasPrefix(body[i:], q) && (i+len(q) >= len(body) || !isSymChar(body[i+len(q)])) && (i == 0 || !isSymChar(body[i-1])) {
				// nearest enclosing select/sat
				for k := len(stack) - 1; k >= 0; k-- {
					st := stack[k]
					if strings.HasPrefix(body[st:], "(select ") || strings.HasPrefix(body[st:], "(sat ") {
						// find matching close
						depth, end := 0, -1
						for j := st; j < len(body); j++ {
							if body[j] == '(' {
								depth++
							} else if body[j] == ')' {
								depth--
								if depth == 0 {
									end = j + 1
									break
								}
							}
						}
						if end > 0 {
							t := body[st:end]
							bad := false
							for _, w := range []string{"(and ", "(or ", "(not ", "(=> ", "(ite ", "(forall ", "(exists ", "(= ", "(< ", "(<= ", "(> ", "(>= ", "(! "} {
								if strings.Contains(t, w) {
									bad = true
								}
							}
							if !seen[t] && !bad {
								seen[t] = true
								pats = append(pats, ":pattern ("+t+")")
							}
						}
						break
					}
				}
				i += len(q) - 1
			}
		}
	}
	if len(pats) > 4 {
		return nil
	}
	return pats
}
