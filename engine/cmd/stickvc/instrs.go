package main

import (
	"fmt"
	"go/constant"
	"go/token"
	"go/types"
	"strings"

	"golang.org/x/tools/go/ssa"
)

func (fr *frame) setEdge(from, to *ssa.BasicBlock, st *state, cond string) {
	es := st.clone()
	es.reach = fr.fc.sc.define("edge", "Bool", and(st.reach, cond))
	if to.Dominates(from) && fr.loops[to] != nil {
		fr.backEdge(from, to, es)
		return
	}
	fr.edges[[2]int{from.Index, to.Index}] = es
}

func (fr *frame) execBlock(b *ssa.BasicBlock, st *state) {
	for _, in := range b.Instrs {
		switch v := in.(type) {
		case *ssa.Phi, *ssa.DebugRef:
			continue
		case *ssa.If:
			c := fr.val(v.Cond)
			fr.setEdge(b, b.Succs[0], st, c)
			fr.setEdge(b, b.Succs[1], st, not(c))
			return
		case *ssa.Jump:
			fr.setEdge(b, b.Succs[0], st, "true")
			return
		case *ssa.Return:
			var res []string
			for _, r := range v.Results {
				res = append(res, fr.val(r))
			}
			fr.retStates = append(fr.retStates, &retRec{st: st.clone(), results: res, instr: v})
			return
		case *ssa.Panic:
			fr.oblige(st, "panic", fr.anchorText(v.Pos(), "stmt"), v.Pos(), "false", "explicit panic reachable")
			return
		default:
			fr.execInstr(st, in)
		}
	}
}

func (fr *frame) freshRef(st *state, name string) string {
	sc := fr.fc.sc
	r := sc.define("ref_"+name, "Int", st.alloc)
	st.alloc = sc.define("alloc", "Int", "(+ "+r+" 1)")
	fr.fc.hset(st, "ESC", app("store", fr.fc.hget(st, "ESC"), r, "false"))
	return r
}

func (fr *frame) sweepOn() bool { return !fr.fc.c.NoSweep }

func (fr *frame) execInstr(st *state, in ssa.Instruction) {
	fc := fr.fc
	sc := fc.sc
	u := fc.e.u
	switch v := in.(type) {
	case *ssa.Alloc:
		et := v.Type().Underlying().(*types.Pointer).Elem()
		r := fr.freshRef(st, v.Comment)
		fr.regs[v] = r
		site := fr.allocSite(v)
		if si := u.structInfoOf(et); si != nil {
			fr.storeStruct(st, r, et, site, u.zero(si.name))
			// object invariants: fields declared never-nil must be initialised right after allocation
			for i := range si.fields {
				key, _, _ := u.fieldKey(et, i)
				if fk, ok := fc.fieldInvOf(key); ok && fr.sweepOn() {
					inited := false
					for _, in2 := range v.Block().Instrs {
						if stx, ok := in2.(*ssa.Store); ok {
							if fa, ok := stx.Addr.(*ssa.FieldAddr); ok && fa.X == v && fa.Field == i {
								inited = true
							}
						}
					}
					cond := "false"
					if inited {
						cond = "true"
					}
					fr.oblige(st, "fieldinv", fk+".init", v.Pos(), cond, "field "+fk+" must be set by the composite literal that allocates the object")
				}
			}
		} else if isNamed(et, "bytes", "Buffer") {
			fc.hset(st, "BL", app("store", fc.hget(st, "BL"), r, "0"))
		} else if at, isArr := et.Underlying().(*types.Array); isArr {
			es := u.sortOf(at.Elem())
			key := u.arrKey(at.Elem())
			fc.hset(st, key, app("store", fc.hget(st, key), r, fmt.Sprintf("((as const (Array Int %s)) %s)", es, u.zero(es))))
		} else {
			srt := u.sortOf(et)
			key := "C|" + srt + site
			fc.hset(st, key, app("store", fc.hget(st, key), r, u.zero(srt)))
		}
	case *ssa.FieldAddr:
		l := fr.fieldLoc(v, st)
		fr.locs[v] = l
		if l == nil {
			fc.abstract("field address into external struct %s", v.X.Type())
			fr.regs[v] = sc.declare("extaddr", "Int")
			return
		}
		fr.nilCheck(st, v.X, v.Pos(), "sel")
	case *ssa.IndexAddr:
		switch xt := v.X.Type().Underlying().(type) {
		case *types.Slice:
			s := fr.val(v.X)
			i := fr.val(v.Index)
			es := u.sortOf(xt.Elem())
			if fr.sweepOn() {
				fr.oblige(st, "idx", fr.anchorText(v.Pos(), "idx"), v.Pos(), fmt.Sprintf("(and (<= 0 %s) (< %s (sllen %s)))", i, i, s), "index in range")
			}
			fr.locs[v] = &Loc{key: u.arrKey(xt.Elem()), sort: es, idx: []string{app("sref", s), fmt.Sprintf("(sidx (soff %s) %s)", s, i)}}
		case *types.Pointer:
			at, ok := xt.Elem().Underlying().(*types.Array)
			if !ok {
				fc.abstract("IndexAddr on %s", v.X.Type())
				fr.locs[v] = nil
				return
			}
			es := u.sortOf(at.Elem())
			i := fr.val(v.Index)
			if _, isConst := v.Index.(*ssa.Const); !isConst && fr.sweepOn() {
				fr.oblige(st, "idx", fr.anchorText(v.Pos(), "idx"), v.Pos(), fmt.Sprintf("(and (<= 0 %s) (< %s %d))", i, i, at.Len()), "array index in range")
			}
			fr.locs[v] = &Loc{key: u.arrKey(at.Elem()), sort: es, idx: []string{fr.val(v.X), i}}
		default:
			fc.abstract("IndexAddr on %s", v.X.Type())
			fr.locs[v] = nil
			fr.regs[v] = sc.declare("arraddr", "Int")
		}
	case *ssa.UnOp:
		fr.execUnOp(st, v)
	case *ssa.Store:
		if _, direct := v.Addr.(*ssa.Global); !direct {
			fr.globalDerivedWrite(st, v.Addr, v.Pos(), "store")
		}
		if fc.e.contracts.NoCaptureWrite[fc.e.keyOf(fr.fn)] {
			base := v.Addr
			for {
				if fa, ok := base.(*ssa.FieldAddr); ok {
					base = fa.X
					continue
				}
				break
			}
			if fv, ok := base.(*ssa.FreeVar); ok {
				fr.oblige(st, "captureframe", fv.Name(), v.Pos(), "false", "a callback that outlives its creator assigns the captured variable "+fv.Name()+" (state shared by all its invocations: C18)")
			}
		}
		val := fr.val(v.Val)
		fr.markEscaped(st, val, v.Val.Type())
		if l, ok := fr.locs[v.Addr]; ok {
			if l != nil {
				fr.fieldFrame(st, l, v.Pos())
				if fk, ok := fc.fieldInvOf(l.key); ok && len(l.path) == 0 && fr.sweepOn() {
					fr.oblige(st, "fieldinv", fk, v.Pos(), nonNilTerm(val, l.sort), "field "+fk+" must never be nil")
				}
				if fc.e.arrInvKeys[l.key] && len(l.path) == 0 && fr.sweepOn() {
					fr.oblige(st, "arrayinv", fr.anchorText(v.Pos(), "stmt"), v.Pos(), nonNilTerm(val, l.sort), "elements of "+l.key+" must never be nil")
				}
				fr.storeLoc(st, l, val)
			}
			return
		}
		if g, ok := v.Addr.(*ssa.Global); ok {
			if only, has := fc.e.contracts.GlobalFrame[g.Pkg.Pkg.Name()]; has && g.Name() != "init$guard" && !matchFuncs(only, fc.e.keyOf(fr.fn)) {
				fr.oblige(st, "globalframe", g.Pkg.Pkg.Name()+"."+g.Name(), v.Pos(), "false", "a package-level variable is written outside the functions allowed to (shared by every call: C18)")
			}
			et := g.Type().Underlying().(*types.Pointer).Elem()
			fc.hset(st, "X|"+g.Pkg.Pkg.Name()+"."+g.Name()+"|"+u.sortOf(et), val)
			return
		}
		pt, _ := v.Addr.Type().Underlying().(*types.Pointer)
		if pt == nil {
			fc.abstract("store through non-pointer")
			return
		}
		if u.structInfoOf(pt.Elem()) != nil {
			fr.nilCheck(st, v.Addr, v.Pos(), "stmt")
			fr.storeStruct(st, fr.val(v.Addr), pt.Elem(), fr.siteOf(v.Addr), val)
			return
		}
		srt := u.sortOf(pt.Elem())
		key := "C|" + srt + fr.siteOf(v.Addr)
		fc.hset(st, key, app("store", fc.hget(st, key), fr.val(v.Addr), val))
	case *ssa.BinOp:
		fr.execBinOp(st, v)
	case *ssa.Call:
		res := fr.call(st, v.Common(), v, v.Pos())
		fr.bindCallResult(v, res)
	case *ssa.Defer:
		d := &deferRec{instr: v, armed: st.reach}
		for _, a := range v.Call.Args {
			d.args = append(d.args, fr.val(a))
		}
		fr.defers = append(fr.defers, d)
	case *ssa.RunDefers:
		for i := len(fr.defers) - 1; i >= 0; i-- {
			d := fr.defers[i]
			// run the deferred call under condition "armed"
			sub := st.clone()
			sub.reach = sc.define("armed", "Bool", and(st.reach, d.armed))
			fr.callWithArgs(sub, &d.instr.Call, d.instr, d.instr.Pos(), d.args)
			// merge sub back into st
			for k, t := range sub.heap {
				if fc.hget(st, k) != t {
					st.heap[k] = sc.defineConst("hd_"+shortKey(k), heapSort(u, k), ite(d.armed, t, fc.hget(st, k)))
				}
			}
			if sub.alloc != st.alloc {
				st.alloc = sc.define("alloc", "Int", ite(d.armed, sub.alloc, st.alloc))
			}
		}
	case *ssa.Go:
		fc.abstract("go statement not executed (assumption A4): %s", fr.anchorText(v.Pos(), "stmt"))
	case *ssa.Send:
		fr.execSend(st, v)
	case *ssa.MakeInterface:
		// type invariant of the repository's interfaces: a pointer to a repo struct stored in an interface
		// is never nil (checked here at every creation site, assumed at every type assertion)
		if pt, ok := v.X.Type().Underlying().(*types.Pointer); ok && u.structInfoOf(pt.Elem()) != nil {
			if _, isAlloc := v.X.(*ssa.Alloc); !isAlloc && fr.sweepOn() {
				cond := fmt.Sprintf("(not (= %s 0))", fr.val(v.X))
				// (value, err) := f(): on the error path the value is discarded by convention; the typed nil
				// wrapped there is not demanded to be non-nil (assumption A10)
				if ex, ok := v.X.(*ssa.Extract); ok {
					if tup, ok := fr.tuples[ex.Tuple]; ok && len(tup) == ex.Index+2 {
						if call, ok := ex.Tuple.(*ssa.Call); ok {
							rs := call.Call.Signature().Results()
							if isErrorType(rs.At(rs.Len() - 1).Type()) {
								cond = implies(fmt.Sprintf("(= (vtag %s) 0)", tup[len(tup)-1]), cond)
							}
						}
					}
				}
				fr.oblige(st, "ifacenn", fr.anchorText(v.Pos(), "stmt"), v.Pos(), cond, "typed nil pointer stored in an interface")
			}
		}
		if _, isFn := v.X.Type().Underlying().(*types.Signature); isFn && fr.sweepOn() {
			if _, isMC := v.X.(*ssa.MakeClosure); !isMC {
				if _, isF := v.X.(*ssa.Function); !isF {
					fr.oblige(st, "ifacenn", fr.anchorText(v.Pos(), "stmt"), v.Pos(), fmt.Sprintf("(not (= %s 0))", fr.val(v.X)), "nil func stored in an interface")
				}
			}
		}
		fr.regs[v] = fr.makeIface(st, fr.val(v.X), v.X.Type())
	case *ssa.ChangeInterface:
		fr.regs[v] = fr.val(v.X)
	case *ssa.ChangeType:
		fr.regs[v] = fr.val(v.X)
		if mc, ok := fr.closures[v.X]; ok {
			fr.closures[v] = mc
		}
	case *ssa.TypeAssert:
		fr.execTypeAssert(st, v)
	case *ssa.Convert:
		fr.execConvert(st, v)
	case *ssa.Extract:
		if tup, ok := fr.tuples[v.Tuple]; ok && v.Index < len(tup) {
			fr.regs[v] = tup[v.Index]
		} else {
			fr.regs[v] = sc.declare("extract", u.sortOf(v.Type()))
			fc.abstract("extract from unmodelled tuple %s", v.Tuple.Name())
		}
	case *ssa.Field:
		si := u.structInfoOf(v.X.Type())
		if si == nil {
			fr.regs[v] = sc.declare("extfield", u.sortOf(v.Type()))
			fc.abstract("field of external struct value")
			return
		}
		fr.regs[v] = app(si.fields[v.Field], fr.val(v.X))
	case *ssa.Index:
		// string or array value index
		if bt, ok := v.X.Type().Underlying().(*types.Basic); ok && bt.Info()&types.IsString != 0 {
			s, i := fr.val(v.X), fr.val(v.Index)
			if fr.sweepOn() {
				fr.oblige(st, "idx", fr.anchorText(v.Pos(), "idx"), v.Pos(), fmt.Sprintf("(and (<= 0 %s) (< %s (slen %s)))", i, i, s), "string index in range")
			}
			b := sc.define("byte", "Int", fmt.Sprintf("(sat %s %s)", s, i))
			sc.assume(fmt.Sprintf("(and (<= 0 %s) (<= %s 255))", b, b))
			fr.regs[v] = b
			return
		}
		fr.regs[v] = sc.declare("arrindex", u.sortOf(v.Type()))
		fc.abstract("Index on %s", v.X.Type())
	case *ssa.Slice:
		fr.execSlice(st, v)
	case *ssa.Lookup:
		fr.execLookup(st, v)
	case *ssa.MapUpdate:
		fr.globalDerivedWrite(st, v.Map, v.Pos(), "map update")
		md, mv, ks, _ := fc.e.mapKeys(v.Map.Type())
		m := fr.val(v.Map)
		k := fr.mapKey(st, fr.val(v.Key), v.Key.Type(), ks)
		fr.markEscaped(st, fr.val(v.Value), v.Value.Type())
		if fc.e.mapInvKeys[mv] && fr.sweepOn() {
			fr.oblige(st, "mapinv", fr.anchorText(v.Pos(), "stmt"), v.Pos(), nonNilTerm(fr.val(v.Value), u.sortOf(v.Value.Type())), "values of this map must never be nil")
		}
		if only, ok := fc.e.mapFrameKeys[mv]; ok && !only[fc.e.keyOf(fr.fn)] {
			entry := fr
			for entry.parent != nil {
				entry = entry.parent
			}
			if entry.old != nil {
				fr.oblige(st, "mapframe", fr.anchorText(v.Pos(), "stmt"), v.Pos(), fmt.Sprintf("(>= %s %s)", m, entry.old.alloc), "a map of this type is written outside its owning functions, and it was not allocated by this function")
			}
		}
		if fr.sweepOn() {
			fr.oblige(st, "mapnil", fr.anchorText(v.Pos(), "stmt"), v.Pos(), fmt.Sprintf("(not (= %s 0))", m), "assignment to entry in nil map")
		}
		fc.hset(st, md, app("store", fc.hget(st, md), m, app("store", app("select", fc.hget(st, md), m), k, "true")))
		fc.hset(st, mv, app("store", fc.hget(st, mv), m, app("store", app("select", fc.hget(st, mv), m), k, fr.val(v.Value))))
	case *ssa.MakeMap:
		md, _, ks, _ := fc.e.mapKeys(v.Type())
		r := fr.freshRef(st, "map")
		fr.regs[v] = r
		fc.hset(st, md, app("store", fc.hget(st, md), r, fmt.Sprintf("((as const (Array %s Bool)) false)", ks)))
	case *ssa.MakeSlice:
		stt := v.Type().Underlying().(*types.Slice)
		es := u.sortOf(stt.Elem())
		ln := fr.val(v.Len)
		if fr.sweepOn() {
			fr.oblige(st, "make", fr.anchorText(v.Pos(), "callfull"), v.Pos(), fmt.Sprintf("(and (<= 0 %s) (<= %s 1099511627776))", ln, ln), "makeslice: len out of range")
		}
		if fc.e.arrInvKeys[u.arrKey(stt.Elem())] && fr.sweepOn() {
			fr.oblige(st, "arrayinv", fr.anchorText(v.Pos(), "callfull"), v.Pos(), eq(ln, "0"), "make of a slice whose elements must never be nil creates nil elements")
		}
		r := fr.freshRef(st, "slice")
		key := u.arrKey(stt.Elem())
		fc.hset(st, key, app("store", fc.hget(st, key), r, fmt.Sprintf("((as const (Array Int %s)) %s)", es, u.zero(es))))
		fr.regs[v] = sc.define("mkslice", "Slice", fmt.Sprintf("(mkslice %s 0 %s)", r, ln))
	case *ssa.MakeChan:
		fr.regs[v] = fr.freshRef(st, "chan")
	case *ssa.MakeClosure:
		id := sc.declare("closure", "Int")
		sc.assume(fmt.Sprintf("(> %s 2000000)", id))
		fr.regs[v] = id
		fr.closures[v] = &closureInfo{fn: v.Fn.(*ssa.Function), bindings: v.Bindings, frame: fr}
	case *ssa.Range:
		fr.execRange(st, v)
	case *ssa.Next:
		fr.execNext(st, v)
	case *ssa.Select:
		fc.abstract("select not modelled")
	default:
		if val, ok := in.(ssa.Value); ok {
			fr.regs[val] = sc.declare("unsup", u.sortOf(val.Type()))
		}
		fc.abstract("instruction %T not modelled", in)
	}
}

func isNamed(t types.Type, pkg, name string) bool {
	n, ok := types.Unalias(t).(*types.Named)
	return ok && n.Obj().Pkg() != nil && n.Obj().Pkg().Name() == pkg && n.Obj().Name() == name
}

func (fr *frame) bindCallResult(v *ssa.Call, res []string) {
	sig := v.Call.Signature()
	switch sig.Results().Len() {
	case 0:
	case 1:
		if len(res) == 1 {
			fr.regs[v] = res[0]
		}
	default:
		fr.tuples[v] = res
	}
}

// nilCheck emits a nil-dereference obligation for pointers that are not parameters or fresh.
func (fr *frame) nilCheck(st *state, p ssa.Value, pos token.Pos, want string) {
	if !fr.sweepOn() {
		return
	}
	switch p.(type) {
	case *ssa.Alloc, *ssa.Parameter, *ssa.FreeVar, *ssa.FieldAddr, *ssa.IndexAddr, *ssa.Global:
		return
	}
	fr.oblige(st, "nil", fr.anchorText(pos, want), pos, fmt.Sprintf("(not (= %s 0))", fr.val(p)), "nil pointer dereference")
}

func (fr *frame) execUnOp(st *state, v *ssa.UnOp) {
	fc := fr.fc
	sc := fc.sc
	u := fc.e.u
	switch v.Op {
	case token.MUL: // load
		srt := u.sortOf(v.Type())
		if l, ok := fr.locs[v.X]; ok {
			if l == nil {
				fr.regs[v] = sc.declare("extload", srt)
				return
			}
			t := sc.define("ld", srt, fr.loadLoc(st, l))
			fr.regs[v] = t
			fr.typeInv(st, t, srt, v.Type(), false)
			if _, ok := fc.fieldInvOf(l.key); ok && len(l.path) == 0 {
				sc.assume(implies(st.reach, nonNilTerm(t, srt)))
			}
			if fc.e.arrInvKeys[l.key] && len(l.path) == 0 {
				// (only inside the bounds of a slice this holds; loads are bounds-checked)
				sc.assume(implies(st.reach, nonNilTerm(t, srt)))
			}
			return
		}
		if g, ok := v.X.(*ssa.Global); ok {
			if g.Name() == "init$guard" && fr.top {
				// the package initialiser is verified for its one real run (the guard is false then)
				fr.regs[v] = "false"
				return
			}
			key := "X|" + g.Pkg.Pkg.Name() + "." + g.Name() + "|" + srt
			t := fc.hget(st, key)
			fr.regs[v] = t
			fr.typeInv(st, t, srt, v.Type(), false)
			return
		}
		pt := v.X.Type().Underlying().(*types.Pointer)
		if u.structInfoOf(pt.Elem()) != nil {
			fr.nilCheck(st, v.X, v.Pos(), "sel")
			t := sc.define("lds", srt, fr.loadStruct(st, fr.val(v.X), pt.Elem(), fr.siteOf(v.X)))
			fr.regs[v] = t
			fr.typeInv(st, t, srt, v.Type(), false)
			return
		}
		if _, ok := pt.Elem().Underlying().(*types.Struct); ok {
			// external struct value
			fr.regs[v] = sc.declare("extstruct", srt)
			return
		}
		key := "C|" + srt + fr.siteOf(v.X)
		t := sc.define("ldc", srt, app("select", fc.hget(st, key), fr.val(v.X)))
		fr.regs[v] = t
		fr.typeInv(st, t, srt, v.Type(), false)
		// closures stored in cells are not tracked
	case token.NOT:
		fr.regs[v] = not(fr.val(v.X))
	case token.SUB:
		fr.regs[v] = "(- " + fr.val(v.X) + ")"
	case token.ARROW:
		fr.execRecv(st, v)
	default:
		fr.regs[v] = sc.declare("unop", u.sortOf(v.Type()))
		fc.abstract("unary %s not modelled", v.Op)
	}
}

func (fr *frame) execBinOp(st *state, v *ssa.BinOp) {
	fc := fr.fc
	sc := fc.sc
	u := fc.e.u
	x, y := fr.val(v.X), fr.val(v.Y)
	xs := u.sortOf(v.X.Type())
	rs := u.sortOf(v.Type())
	var t string
	switch v.Op {
	case token.EQL, token.NEQ:
		switch xs {
		case "Str":
			var al, bl *string
			if s, ok := litOf(v.X); ok {
				al = &s
			}
			if s, ok := litOf(v.Y); ok {
				bl = &s
			}
			t = fc.strEq(x, y, al, bl)
		case "Slice":
			t = fmt.Sprintf("(= (sref %s) (sref %s))", x, y)
		case "Real":
			// == on floats is false when an operand is NaN (so != is true)
			t = and(notNaN(u, x), notNaN(u, y), eq(x, y))
		case "Val":
			t = eq(x, y)
			// == on two interface values panics when both hold the same dynamic type and that type is not comparable
			// (a slice, a map, a function, or a struct / array containing one)
			if !isConstNil(v.X) && !isConstNil(v.Y) && fr.sweepOn() {
				u.global("(declare-fun cmpable (Int) Bool)")
				fr.oblige(st, "ifacecmp", fr.anchorText(v.Pos(), "binop"), v.Pos(),
					fmt.Sprintf("(or (not (= (vtag %s) (vtag %s))) (cmpable (vtag %s)))", x, y, x),
					"comparing two interface values does not panic: their common dynamic type is comparable")
			}
		default:
			t = eq(x, y)
		}
		if v.Op == token.NEQ {
			t = not(t)
		}
	case token.LSS, token.LEQ, token.GTR, token.GEQ:
		op := map[token.Token]string{token.LSS: "<", token.LEQ: "<=", token.GTR: ">", token.GEQ: ">="}[v.Op]
		if xs == "Str" {
			t = sc.declare("strcmp", "Bool")
		} else if xs == "Real" {
			t = fcmp(u, op, x, y)
		} else {
			t = app(op, x, y)
		}
	case token.ADD:
		if cx, ok := v.X.(*ssa.Const); ok && xs == "Str" && cx.Value != nil && cx.Value.Kind() == constant.String {
			if cy, ok := v.Y.(*ssa.Const); ok && cy.Value != nil && cy.Value.Kind() == constant.String {
				// "end" + tagName with a local that is never reassigned: the concatenation of two literals is a literal
				fr.regs[v] = u.lit(constant.StringVal(cx.Value) + constant.StringVal(cy.Value))
				return
			}
		}
		if xs == "Str" {
			r := sc.define("concat", "Str", app("sconcat", x, y))
			sc.assume(fmt.Sprintf("(and (= (slo %s) 0) (= (shi %s) (+ (slen %s) (slen %s))))", r, r, x, y))
			// the content (canonical key) of a concatenation is determined by the contents of its operands
			u.global("(declare-fun kcat (Int Int) Int)")
			sc.assume(fmt.Sprintf("(= (skey %s) (kcat (skey %s) (skey %s)))", r, x, y))
			t = r
		} else {
			t = app("+", x, y)
		}
	case token.SUB:
		t = app("-", x, y)
	case token.MUL:
		_, cx := v.X.(*ssa.Const)
		_, cy := v.Y.(*ssa.Const)
		if cx || cy {
			t = app("*", x, y)
		} else if rs == "Real" {
			// products of two unknowns are kept abstract (nonlinear arithmetic would poison unrelated goals)
			u.global("(declare-fun rmul (Real Real) Real)")
			t = app("rmul", x, y)
		} else {
			u.global("(declare-fun imul (Int Int) Int)")
			t = app("imul", x, y)
		}
	case token.QUO:
		if rs == "Real" {
			t = app("/", x, y)
		} else {
			if fr.sweepOn() {
				fr.oblige(st, "div", fr.anchorText(v.Pos(), "div"), v.Pos(), not(eq(y, "0")), "integer divide by zero")
			}
			if _, cy := v.Y.(*ssa.Const); cy {
				t = gdiv(x, y)
			} else {
				u.global("(declare-fun iquo (Int Int) Int)")
				t = app("iquo", x, y)
			}
		}
	case token.REM:
		if fr.sweepOn() {
			fr.oblige(st, "div", fr.anchorText(v.Pos(), "div"), v.Pos(), not(eq(y, "0")), "integer divide by zero")
		}
		if _, cy := v.Y.(*ssa.Const); cy {
			t = fmt.Sprintf("(- %s (* %s %s))", x, y, gdiv(x, y))
		} else {
			u.global("(declare-fun irem (Int Int) Int)")
			t = app("irem", x, y)
		}
	case token.AND, token.OR, token.XOR, token.SHL, token.SHR, token.AND_NOT:
		if rs == "Bool" {
			switch v.Op {
			case token.AND:
				t = and(x, y)
			case token.OR:
				t = or(x, y)
			default:
				t = sc.declare("boolop", "Bool")
			}
		} else {
			name := map[token.Token]string{token.AND: "bit_and", token.OR: "bit_or", token.XOR: "bit_xor", token.SHL: "bit_shl", token.SHR: "bit_shr", token.AND_NOT: "bit_andnot"}[v.Op]
			u.global(fmt.Sprintf("(declare-fun %s (Int Int) Int)", name))
			t = app(name, x, y)
		}
	default:
		t = sc.declare("binop", rs)
		fc.abstract("binary %s not modelled", v.Op)
	}
	fr.regs[v] = sc.define("b", rs, t)
}

// gdiv: Go's truncated integer division in terms of SMT floor division.
func gdiv(a, b string) string {
	return fmt.Sprintf("(ite (>= %s 0) (ite (> %s 0) (div %s %s) (- (div %s (- %s)))) (ite (> %s 0) (- (div (- %s) %s)) (div (- %s) (- %s))))", a, b, a, b, a, b, b, a, b, a, b)
}

func (fr *frame) makeIface(st *state, x string, t types.Type) string {
	u := fr.fc.e.u
	fr.markEscaped(st, x, t)
	if _, ok := t.Underlying().(*types.Interface); ok {
		return x
	}
	tag := u.tagOf(t)
	srt := u.sortOf(t)
	var pay string
	switch srt {
	case "Int":
		pay = x
	case "Bool":
		pay = app("b2i", x)
	default:
		box, unbox := u.boxFns(srt)
		pay = app(box, x)
		fr.fc.sc.assume(eq(app(unbox, pay), x))
	}
	return fr.fc.sc.define("iface", "Val", fmt.Sprintf("(mkval %d %s)", tag, pay))
}

func (fr *frame) unbox(v string, t types.Type) string {
	u := fr.fc.e.u
	srt := u.sortOf(t)
	switch srt {
	case "Int":
		return app("vpay", v)
	case "Bool":
		return fmt.Sprintf("(= (vpay %s) 1)", v)
	case "Val":
		return v
	}
	_, unbox := u.boxFns(srt)
	return app(unbox, app("vpay", v))
}

func (fr *frame) typeTest(v string, t types.Type) string {
	u := fr.fc.e.u
	if it, ok := t.Underlying().(*types.Interface); ok {
		if it.NumMethods() == 0 {
			return fmt.Sprintf("(not (= (vtag %s) 0))", v)
		}
		p := u.implPred(it, types.TypeString(t, func(p *types.Package) string { return p.Name() }))
		return app(p, app("vtag", v))
	}
	return fmt.Sprintf("(= (vtag %s) %d)", v, u.tagOf(t))
}

func (fr *frame) execTypeAssert(st *state, v *ssa.TypeAssert) {
	sc := fr.fc.sc
	u := fr.fc.e.u
	x := fr.val(v.X)
	ok := sc.define("isT", "Bool", fr.typeTest(x, v.AssertedType))
	srt := u.sortOf(v.AssertedType)
	val := sc.define("asT", srt, ite(ok, fr.unbox(x, v.AssertedType), u.zero(srt)))
	fr.typeInv(st, val, srt, v.AssertedType, false)
	if pt, isPtr := v.AssertedType.Underlying().(*types.Pointer); isPtr && u.structInfoOf(pt.Elem()) != nil {
		sc.assume(implies(ok, fmt.Sprintf("(not (= %s 0))", val)))
	}
	if _, isFn := v.AssertedType.Underlying().(*types.Signature); isFn {
		// func values created by the library are closures, never nil (checked where they are boxed)
		sc.assume(implies(ok, fmt.Sprintf("(not (= %s 0))", val)))
	}
	if v.CommaOk {
		fr.tuples[v] = []string{val, ok}
		return
	}
	if fr.sweepOn() {
		fr.oblige(st, "assert-type", fr.anchorText(v.Pos(), "assert-type"), v.Pos(), ok, "type assertion without comma-ok")
	}
	fr.regs[v] = val
}

func (fr *frame) execConvert(st *state, v *ssa.Convert) {
	sc := fr.fc.sc
	u := fr.fc.e.u
	x := fr.val(v.X)
	from, to := u.sortOf(v.X.Type()), u.sortOf(v.Type())
	switch {
	case from == to && from != "Str" && from != "Slice":
		fr.regs[v] = x
		if bt, ok := v.Type().Underlying().(*types.Basic); ok && bt.Info()&types.IsUnsigned != 0 {
			if bf, ok := v.X.Type().Underlying().(*types.Basic); ok && bf.Info()&types.IsUnsigned == 0 && from == "Int" {
				// signed -> unsigned: wraps; model as unconstrained non-negative when negative
				r := sc.declare("tou", "Int")
				sc.assume(fmt.Sprintf("(and (>= %s 0) (=> (>= %s 0) (= %s %s)))", r, x, r, x))
				fr.regs[v] = r
			}
		}
	case from == "Int" && to == "Real":
		fr.regs[v] = app("to_real", x)
	case from == "Real" && to == "Int":
		// f2i: Go's float -> integer conversion; truncation toward zero when in range, otherwise an
		// implementation-defined value (no panic)
		u.global("(declare-fun f2i (Real) Int)")
		r := sc.define("toint", "Int", app("f2i", x))
		// truncation toward zero, characterised by linear bounds (no to_int in the query)
		truncOf := func(r string) string {
			return fmt.Sprintf("(ite (>= %s 0.0) (and (<= (to_real %s) %s) (< %s (+ (to_real %s) 1.0))) (and (>= (to_real %s) %s) (> %s (- (to_real %s) 1.0))))", x, r, x, x, r, r, x, x, r)
		}
		sc.assume(fmt.Sprintf("(=> (and %s (> %s (- 9000000000000000000.0)) (< %s 9000000000000000000.0)) %s)", notNaN(u, x), x, x, truncOf(r)))
		if bt, ok := v.Type().Underlying().(*types.Basic); ok && bt.Info()&types.IsUnsigned != 0 {
			u.global("(declare-fun f2u (Real) Int)")
			r2 := sc.define("touint", "Int", app("f2u", x))
			sc.assume(fmt.Sprintf("(and (>= %s 0) (=> (and (>= %s 0.0) (< %s 9000000000000000000.0)) %s))", r2, x, x, truncOf(r2)))
			r = r2
		}
		fr.regs[v] = r
	case from == "Int" && to == "Str":
		// string(rune) / string(byte)
		r := sc.declare("runestr", "Str")
		sc.assume(fmt.Sprintf("(and (= (slo %s) 0) (>= (shi %s) 1) (<= (shi %s) 4) (=> (and (>= %s 0) (< %s 128)) (and (= (shi %s) 1) (= (sat %s 0) %s))) (=> (or (< %s 0) (>= %s 128)) (and (>= (sat %s 0) 128) (>= (sat %s 1) 128) (>= (sat %s 2) 128) (>= (sat %s 3) 128) (>= (shi %s) 2))))", r, r, r, x, x, r, r, x, x, x, r, r, r, r, r))
		fr.regs[v] = r
	case from == "Str" && to == "Slice":
		// []byte(s) or []rune(s)
		st2 := v.Type().Underlying().(*types.Slice)
		r := fr.freshRef(st, "conv")
		sl := sc.declare("convslice", "Slice")
		isByte := false
		if bt, ok := st2.Elem().Underlying().(*types.Basic); ok && bt.Kind() == types.Uint8 {
			isByte = true
		}
		if isByte {
			sc.assume(fmt.Sprintf("(and (= (sref %s) %s) (= (soff %s) 0) (= (sllen %s) (slen %s)))", sl, r, sl, sl, x))
		} else {
			sc.assume(fmt.Sprintf("(and (= (sref %s) %s) (= (soff %s) 0) (<= 0 (sllen %s)) (<= (sllen %s) (slen %s)) (=> (> (slen %s) 0) (> (sllen %s) 0)))", sl, r, sl, sl, sl, x, x, sl))
		}
		fr.havocArr(st, st2.Elem(), r)
		fr.regs[v] = sl
	case from == "Slice" && to == "Str":
		r := sc.declare("slicestr", "Str")
		st2 := v.X.Type().Underlying().(*types.Slice)
		if bt, ok := st2.Elem().Underlying().(*types.Basic); ok && bt.Kind() == types.Uint8 {
			// string(bytes): a view on the array contents at the time of the conversion (strings are immutable)
			sc.assume(fmt.Sprintf("(= %s (mkstr (select %s (sref %s)) (soff %s) (+ (soff %s) (sllen %s))))", r, fr.fc.hget(st, u.arrKey(st2.Elem())), x, x, x, x))
		} else {
			sc.assume(fmt.Sprintf("(and (= (slo %s) 0) (>= (shi %s) (sllen %s)))", r, r, x))
		}
		fr.regs[v] = r
	case from == "Real" && to == "Real", from == "Str" && to == "Str":
		fr.regs[v] = x
	default:
		fr.regs[v] = sc.declare("conv", to)
		fr.fc.abstract("conversion %s -> %s not modelled", v.X.Type(), v.Type())
	}
}

func (fr *frame) havocArr(st *state, elem types.Type, ref string) {
	es := fr.fc.e.u.sortOf(elem)
	key := fr.fc.e.u.arrKey(elem)
	fresh := fr.fc.sc.declare("arr", "(Array Int "+es+")")
	fr.fc.hset(st, key, app("store", fr.fc.hget(st, key), ref, fresh))
}

func (fr *frame) execSlice(st *state, v *ssa.Slice) {
	sc := fr.fc.sc
	x := fr.val(v.X)
	switch xt := v.X.Type().Underlying().(type) {
	case *types.Basic: // string
		lo := "0"
		if v.Low != nil {
			lo = fr.val(v.Low)
		}
		hi := app("slen", x)
		if v.High != nil {
			hi = fr.val(v.High)
		}
		if fr.sweepOn() {
			fr.oblige(st, "slice", fr.anchorText(v.Pos(), "slice"), v.Pos(), fmt.Sprintf("(and (<= 0 %s) (<= %s %s) (<= %s (slen %s)))", lo, lo, hi, hi, x), "slice bounds in range")
		}
		fr.regs[v] = sc.define("sub", "Str", fmt.Sprintf("(ssub %s %s %s)", x, lo, hi))
	case *types.Slice:
		lo := "0"
		if v.Low != nil {
			lo = fr.val(v.Low)
		}
		hi := app("sllen", x)
		if v.High != nil {
			hi = fr.val(v.High)
		}
		if fr.sweepOn() {
			// stricter than Go (uses len, not cap): re-extension within capacity is not modelled
			fr.oblige(st, "slice", fr.anchorText(v.Pos(), "slice"), v.Pos(), fmt.Sprintf("(and (<= 0 %s) (<= %s %s) (<= %s (sllen %s)))", lo, lo, hi, hi, x), "slice bounds in range")
		}
		fr.regs[v] = sc.define("resl", "Slice", fmt.Sprintf("(mkslice (sref %s) (+ (soff %s) %s) (- %s %s))", x, x, lo, hi, lo))
	case *types.Pointer:
		at, ok := xt.Elem().Underlying().(*types.Array)
		if !ok {
			fr.regs[v] = sc.declare("sliceofptr", "Slice")
			fr.fc.abstract("slice of %s not modelled", v.X.Type())
			return
		}
		lo := "0"
		if v.Low != nil {
			lo = fr.val(v.Low)
		}
		hi := fmt.Sprint(at.Len())
		if v.High != nil {
			hi = fr.val(v.High)
		}
		fr.regs[v] = sc.define("arrsl", "Slice", fmt.Sprintf("(mkslice %s %s (- %s %s))", x, lo, hi, lo))
	default:
		fr.regs[v] = sc.declare("sliceofarr", "Slice")
		fr.fc.abstract("slice of %s not modelled", v.X.Type())
	}
}

// mapKey canonicalises a key term for use as map index.
func (fr *frame) mapKey(st *state, k string, t types.Type, ks string) string {
	u := fr.fc.e.u
	srt := u.sortOf(t)
	switch srt {
	case "Str":
		return app("skey", k)
	case "Int", "Bool":
		return k
	}
	// abstract key id for other sorts
	name := "keyid_" + sanitize(srt)
	u.global(fmt.Sprintf("(declare-fun %s (%s) Int)", name, srt))
	return app(name, k)
}

func (fr *frame) execLookup(st *state, v *ssa.Lookup) {
	fc := fr.fc
	sc := fc.sc
	u := fc.e.u
	if _, ok := v.X.Type().Underlying().(*types.Map); !ok {
		// string index
		s, i := fr.val(v.X), fr.val(v.Index)
		if fr.sweepOn() {
			fr.oblige(st, "idx", fr.anchorText(v.Pos(), "idx"), v.Pos(), fmt.Sprintf("(and (<= 0 %s) (< %s (slen %s)))", i, i, s), "string index in range")
		}
		b := sc.define("byte", "Int", fmt.Sprintf("(sat %s %s)", s, i))
		sc.assume(fmt.Sprintf("(and (<= 0 %s) (<= %s 255))", b, b))
		fr.regs[v] = b
		return
	}
	md, mv, ks, vs := fc.e.mapKeys(v.X.Type())
	m := fr.val(v.X)
	k := fr.mapKey(st, fr.val(v.Index), v.Index.Type(), ks)
	ok := sc.define("inmap", "Bool", fmt.Sprintf("(and (not (= %s 0)) (select (select %s %s) %s))", m, fc.hget(st, md), m, k))
	val := sc.define("mapval", vs, ite(ok, fmt.Sprintf("(select (select %s %s) %s)", fc.hget(st, mv), m, k), u.zero(vs)))
	mt := v.X.Type().Underlying().(*types.Map)
	fr.typeInv(st, val, vs, mt.Elem(), false)
	if fc.e.mapInvKeys[mv] {
		sc.assume(implies(ok, nonNilTerm(val, vs)))
	}
	if v.CommaOk {
		fr.tuples[v] = []string{val, ok}
	} else {
		fr.regs[v] = val
	}
}

// Range / Next -------------------------------------------------------------

type rangeInfo struct {
	dom0 string // map ranges: the domain when the iteration started
	str   string // string term (string range)
	isMap bool
	m     string
	typ   types.Type
}

var rangeInfos = map[*ssa.Range]*rangeInfo{}

func (fr *frame) execRange(st *state, v *ssa.Range) {
	fc := fr.fc
	r := fr.freshRef(st, "iter")
	fr.regs[v] = r
	fr.lastRange = r
	fc.hset(st, "IT", app("store", fc.hget(st, "IT"), r, "0"))
	ri := &rangeInfo{typ: v.X.Type()}
	if _, ok := v.X.Type().Underlying().(*types.Map); ok {
		ri.isMap = true
		ri.m = fr.val(v.X)
		// ghost: the domain when the iteration starts and the (empty) set of keys visited so far
		md, _, ks, _ := fc.e.mapKeys(v.X.Type())
		ri.dom0 = fc.sc.defineConst("rdom0", "(Array "+ks+" Bool)", app("select", fc.hget(st, md), ri.m))
		vk := "ITV|" + ks
		fc.hset(st, vk, app("store", fc.hget(st, vk), r, fmt.Sprintf("((as const (Array %s Bool)) false)", ks)))
		fr.lastMapRange = r
		fr.lastMapRangeKS = ks
		fr.lastMapDom0 = ri.dom0
	} else {
		ri.str = fr.val(v.X)
	}
	rangeInfos[v] = ri
}

func (fr *frame) execNext(st *state, v *ssa.Next) {
	fc := fr.fc
	sc := fc.sc
	u := fc.e.u
	rng, _ := v.Iter.(*ssa.Range)
	ri := rangeInfos[rng]
	it := fr.val(v.Iter)
	pos := sc.define("itpos", "Int", app("select", fc.hget(st, "IT"), it))
	if ri == nil {
		fr.tuples[v] = []string{sc.declare("ok", "Bool"), sc.declare("k", "Int"), sc.declare("v", "Int")}
		fc.abstract("Next on unknown iterator")
		return
	}
	if v.IsString {
		s := ri.str
		// built-in invariant of the iterator
		sc.assume(implies(st.reach, fmt.Sprintf("(and (<= 0 %s) (<= %s (slen %s)))", pos, pos, s)))
		ok := sc.define("rok", "Bool", fmt.Sprintf("(< %s (slen %s))", pos, s))
		w := sc.declare("rwidth", "Int")
		r := sc.declare("rune", "Int")
		b0 := fmt.Sprintf("(sat %s %s)", s, pos)
		u.global("(declare-fun utf8_valid_at ((Array Int Int) Int Int) Bool)")
		sc.assume(implies(ok, fmt.Sprintf("(and (>= %s 1) (<= %s 4) (<= (+ %s %s) (slen %s)) (>= %s 0) (<= %s 1114111) (<= 0 %s) (<= %s 255) (=> (< %s 128) (and (= %s 1) (= %s %s))) (=> (>= %s 128) (>= %s 128)) (=> (> %s 1) (>= %s 128)) (=> (and (>= %s 128) (= %s 1)) (= %s 65533)) (not (and (>= %s 55296) (<= %s 57343))))",
			w, w, pos, w, s, r, r, b0, b0, b0, w, r, b0, b0, r, w, r, b0, w, r, r, r)))
		fc.hset(st, "IT", app("store", fc.hget(st, "IT"), it, ite(ok, "(+ "+pos+" "+w+")", pos)))
		fr.tuples[v] = []string{ok, pos, r}
		fr.fc.inputs[fmt.Sprintf("rune@%s", rng.Name())] = r
		return
	}
	// map iteration: an unconstrained next key from the domain
	md, mv, ks, vs := fc.e.mapKeys(ri.typ)
	ok := sc.declare("mok", "Bool")
	k := sc.declare("mkey", ks)
	m := ri.m
	{
		// a range over a map yields at most len(map) keys
		fn := "maplen_" + sanitize(ks)
		u.global(fmt.Sprintf("(declare-fun %s ((Array %s Bool)) Int)", fn, ks))
		sc.assume(implies(st.reach, fmt.Sprintf("(and (>= %s 0) (=> %s (< %s (%s (select %s %s)))))", pos, ok, pos, fn, fc.hget(st, md), m)))
	}
	sc.assume(implies(ok, fmt.Sprintf("(and (not (= %s 0)) (select (select %s %s) %s))", m, fc.hget(st, md), m, k)))
	{
		// every key is produced at most once; when the iteration ends, every key that was in the map when it began
		// and still is has been produced (Go spec: entries removed are not produced, entries added may be skipped)
		vk := "ITV|" + ks
		vis := app("select", fc.hget(st, vk), it)
		sc.assume(implies(ok, not(app("select", vis, k))))
		q := sc.fresh("q")
		sc.assume(implies(and(st.reach, not(ok)), fmt.Sprintf("(forall ((%s %s)) (! (=> (and (select %s %s) (select (select %s %s) %s)) (select %s %s)) :pattern ((select %s %s))))",
			q, ks, ri.dom0, q, fc.hget(st, md), m, q, vis, q, vis, q)))
		fc.hset(st, vk, app("store", fc.hget(st, vk), it, ite(ok, app("store", vis, k, "true"), vis)))
	}
	val := sc.define("mval", vs, fmt.Sprintf("(select (select %s %s) %s)", fc.hget(st, mv), m, k))
	mt := ri.typ.Underlying().(*types.Map)
	fr.typeInv(st, val, vs, mt.Elem(), false)
	if fc.e.mapInvKeys[mv] {
		sc.assume(implies(ok, nonNilTerm(val, vs)))
	}
	fc.hset(st, "IT", app("store", fc.hget(st, "IT"), it, "(+ "+pos+" 1)"))
	// the key as a Go value: for string keys we need a Str whose skey is k
	kt := mt.Key()
	kv := k
	if u.sortOf(kt) == "Str" {
		ksv := sc.declare("mkeystr", "Str")
		sc.assume(fmt.Sprintf("(and (= (skey %s) %s) (<= 0 (slo %s)) (<= (slo %s) (shi %s)))", ksv, k, ksv, ksv, ksv))
		kv = ksv
	} else if u.sortOf(kt) != ks {
		kv = sc.declare("mkeyv", u.sortOf(kt))
	}
	fr.tuples[v] = []string{ok, kv, val}
}

// channels: the lexer's token channel is mapped to a ghost stream (assumption A4) ----------

func (fr *frame) execSend(st *state, v *ssa.Send) {
	fc := fr.fc
	u := fc.e.u
	// ghost stream of sent values per channel: CHN (count) and CHV|sort (values)
	ch := fr.val(v.Chan)
	srt := u.sortOf(v.X.Type())
	if fr.sweepOn() {
		fr.oblige(st, "sendclosed", fr.anchorText(v.Pos(), "stmt"), v.Pos(), not(app("select", fc.hget(st, "G|chan.closed|Bool"), ch)), "send on closed channel")
	}
	nk := "G|chan.sent|Int"
	vk := "GA|chan.vals|" + srt
	n := app("select", fc.hget(st, nk), ch)
	fc.hset(st, vk, app("store", fc.hget(st, vk), ch, app("store", app("select", fc.hget(st, vk), ch), n, fr.val(v.X))))
	fc.hset(st, nk, app("store", fc.hget(st, nk), ch, "(+ "+n+" 1)"))
}

func (fr *frame) execRecv(st *state, v *ssa.UnOp) {
	fc := fr.fc
	sc := fc.sc
	u := fc.e.u
	ct := v.X.Type().Underlying().(*types.Chan)
	srt := u.sortOf(ct.Elem())
	val := sc.declare("recv", srt)
	fr.typeInv(st, val, srt, ct.Elem(), false)
	if v.CommaOk {
		ok := sc.declare("recvok", "Bool")
		fr.tuples[v] = []string{val, ok}
		// ghost: a receive that reports "closed and empty" has drained the channel (C19)
		dk := "G|chan.drained|Bool"
		ch := fr.val(v.X)
		fc.hset(st, dk, app("store", fc.hget(st, dk), ch, or(app("select", fc.hget(st, dk), ch), not(ok))))
	} else {
		fr.regs[v] = val
	}
	fc.abstract("channel receive: value unconstrained (assumption A4)")
}

func anchorOfCall(fr *frame, pos token.Pos) string {
	a := fr.anchorText(pos, "call")
	return a
}

var _ = strings.TrimSpace


func matchFuncs(pats []string, key string) bool {
	for _, p := range pats {
		if p == key || (strings.HasSuffix(p, "*") && strings.HasPrefix(key, strings.TrimSuffix(p, "*"))) {
			return true
		}
	}
	return false
}

// fieldFrame: frame obligation of a fieldframe directive at a store through location l.
func (fr *frame) fieldFrame(st *state, l *Loc, pos token.Pos) {
	fc := fr.fc
	if len(fc.e.contracts.FieldFrame) == 0 || !strings.HasPrefix(l.key, "F|") || strings.Contains(l.key, "@") || len(l.idx) == 0 {
		return
	}
	name := l.key[2:]
	if i := strings.Index(name, "|"); i >= 0 {
		name = name[:i]
	}
	// name = pkg.Type.field
	typ := name
	if i := strings.LastIndex(name, "."); i >= 0 {
		typ = name[:i]
	}
	for _, k := range []string{name, typ} {
		only, ok := fc.e.contracts.FieldFrame[k]
		if !ok || matchFuncs(only, fc.e.keyOf(fr.fn)) {
			continue
		}
		entry := fr
		for entry.parent != nil {
			entry = entry.parent
		}
		if entry.old != nil {
			fr.oblige(st, "fieldframe", name, pos, fmt.Sprintf("(>= %s %s)", l.idx[0], entry.old.alloc), "field "+name+" is written outside its owning functions in an object this function did not allocate (state shared between calls: C18)")
		}
	}
}


// globalRoot: the package-level variable a value was loaded from (directly, or through field / element
// addressing), or nil.
func globalRoot(v ssa.Value) *ssa.Global {
	for i := 0; i < 8 && v != nil; i++ {
		switch x := v.(type) {
		case *ssa.Global:
			return x
		case *ssa.UnOp:
			if x.Op != token.MUL {
				return nil
			}
			v = x.X
		case *ssa.FieldAddr:
			v = x.X
		case *ssa.IndexAddr:
			v = x.X
		case *ssa.ChangeType:
			v = x.X
		default:
			return nil
		}
	}
	return nil
}

// globalDerivedWrite: a write into an object reached through a package-level variable (a map, a struct, an
// array held by the variable) is a write to state shared by every call, unless the function is one of the
// package's permitted writers (globalframe directive).
func (fr *frame) globalDerivedWrite(st *state, target ssa.Value, pos token.Pos, what string) {
	fc := fr.fc
	g := globalRoot(target)
	if g == nil || g.Pkg == nil {
		return
	}
	only, has := fc.e.contracts.GlobalFrame[g.Pkg.Pkg.Name()]
	if !has || matchFuncs(only, fc.e.keyOf(fr.fn)) {
		return
	}
	fr.oblige(st, "globalframe", g.Pkg.Pkg.Name()+"."+g.Name()+"("+what+")", pos, "false", what+" on an object held by the package-level variable "+g.Name()+" outside the functions allowed to write it (shared by every call: C18)")
}


// NaN: floats are modelled as reals (A2) plus one uninterpreted flag fnan(x) saying that the value is a NaN.
// Ordered comparisons are false when an operand is NaN, exactly as in Go; int(x) of a NaN is unspecified. Terms
// that are syntactically numerals or conversions from integers are never NaN.
func nanFree(t string) bool {
	if t == "" {
		return false
	}
	c := t[0]
	return (c >= '0' && c <= '9') || strings.HasPrefix(t, "(- ") && len(t) > 3 && t[3] >= '0' && t[3] <= '9' || strings.HasPrefix(t, "(to_real ") || strings.HasPrefix(t, "(/ ") && len(t) > 3 && t[3] >= '0' && t[3] <= '9'
}

func notNaN(u *Universe, t string) string {
	if nanFree(t) {
		return "true"
	}
	u.global("(declare-fun fnan (Real) Bool)")
	return "(not (fnan " + t + "))"
}

func fcmp(u *Universe, op, x, y string) string {
	return and(notNaN(u, x), notNaN(u, y), app(op, x, y))
}


func isConstNil(v ssa.Value) bool {
	c, ok := v.(*ssa.Const)
	return ok && c.Value == nil
}
