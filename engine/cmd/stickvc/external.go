package main

// Assumed contracts of external (standard-library) functions — the trusted base A5.
// Each handler returns the call's results and updates the symbolic state.

import (
	"fmt"
	"go/token"
	"go/types"
	"strings"

	"golang.org/x/tools/go/ssa"
)

type extHandler func(fr *frame, st *state, c *ssa.CallCommon, args []string, pos token.Pos) []string

var extHandlers map[string]extHandler

const errTag = 900001 // dynamic type tag of errors created by errors.New / fmt.Errorf

func init() {
	extHandlers = map[string]extHandler{
		"strings.HasPrefix":             extHasPrefix,
		"strings.HasSuffix":             extHasSuffix,
		"strings.TrimSuffix":            extTrimSuffix,
		"strings.Index":                 extIndex,
		"strings.LastIndex":             extLastIndex,
		"strings.Count":                 extCount,
		"strings.Contains":              extContains,
		"strings.ContainsAny":           extContainsAny,
		"unicode.IsDigit":               extUnicode("uni_isdigit", func(r string) string { return fmt.Sprintf("(and (<= 48 %s) (<= %s 57))", r, r) }),
		"unicode.IsLetter":              extUnicode("uni_isletter", func(r string) string { return fmt.Sprintf("(or (and (<= 65 %s) (<= %s 90)) (and (<= 97 %s) (<= %s 122)))", r, r, r, r) }),
		"(*bytes.Buffer).WriteString":   extBufWriteString,
		"(*bytes.Buffer).WriteRune":     extBufWriteRune,
		"(*bytes.Buffer).WriteByte":     extBufWriteByte,
		"(*bytes.Buffer).String":        extBufString,
		"(*bytes.Buffer).Bytes":         extBufBytes,
		"fmt.Fprintf":                   extFprintf,
		"io.WriteString":                extIOWriteString,
		"io.Copy":                       extIOCopy,
		"os.Open":                       extOSOpen,
		"(*os.File).Close":              extFileClose,
		"errors.New":                    extNewError,
		"fmt.Errorf":                    extNewError,
		"math.Floor":                    extFloorCeil(true),
		"math.Ceil":                     extFloorCeil(false),
		"math.Pow": func(fr *frame, st *state, c *ssa.CallCommon, args []string, pos token.Pos) []string {
			fr.fc.e.u.global("(declare-fun rpow (Real Real) Real)")
			return []string{fr.fc.sc.define("m", "Real", app("rpow", args[0], args[1]))}
		},
		"math.Abs":                      extMath1(func(x string) string { return fmt.Sprintf("(ite (>= %s 0.0) %s (- %s))", x, x, x) }),
		"unicode/utf8.RuneCountInString": extRuneCount,
		"fmt.Sprintf":                    extSprintf,
	}
}

func (fr *frame) external(st *state, f *ssa.Function, c *ssa.CallCommon, pos token.Pos, args []string) []string {
	fc := fr.fc
	name := f.String()
	if name == "(*regexp.Regexp).Longest" && len(c.Args) > 0 {
		// (the one method of *regexp.Regexp that modifies its receiver)
		fr.globalDerivedWrite(st, c.Args[0], pos, "Longest()")
	}
	if h, ok := extHandlers[name]; ok {
		fc.used["ext:"+name] = true
		return h(fr, st, c, args, pos)
	}
	// contract from speclib files keyed "ext:<name>"
	if ct := fc.e.contracts.Funcs["ext:"+name]; ct != nil {
		fc.used["ext:"+name] = true
		vars := map[string]TV{}
		sig := c.Signature()
		off := 0
		if sig.Recv() != nil {
			vars["recv"] = TV{T: args[0], Sort: fc.e.u.sortOf(sig.Recv().Type()), Typ: sig.Recv().Type()}
			off = 1
		}
		for i := 0; i < sig.Params().Len(); i++ {
			p := sig.Params().At(i)
			tv := TV{T: args[i+off], Sort: fc.e.u.sortOf(p.Type()), Typ: p.Type()}
			if p.Name() != "" {
				vars[p.Name()] = tv
			}
			vars[fmt.Sprintf("a%d", i)] = tv
		}
		eff := fc.e.externalEffects(nil, f, c)
		if ct.HasMod {
			eff = ct.Modifies
		}
		if name == "(*reflect.MapIter).Next" {
			// the ghost position of this iterator only: a point update at the receiver
			eff = []string{"G|reflect.MapIter.pos|Int#P0"}
			fr.calleeArgs = func(i int) string {
				if i < len(args) {
					return args[i]
				}
				return ""
			}
			defer func() { fr.calleeArgs = nil }()
		}
		return fr.specCall(st, ct, "ext:"+name, fr.anchorText(pos, "call"), pos, vars, eff, sig)
	}
	fc.unmodelled[name] = true
	fc.havocFramed(st, st.clone(), fc.e.externalEffects(nil, f, c))
	fr.bumpAlloc(st)
	return fr.freshResults(st, c.Signature(), f.Name())
}

func extMath1(f func(string) string) extHandler {
	return func(fr *frame, st *state, c *ssa.CallCommon, args []string, pos token.Pos) []string {
		return []string{fr.fc.sc.define("m", "Real", f(args[0]))}
	}
}

func extUnicode(name string, ascii func(string) string) extHandler {
	return func(fr *frame, st *state, c *ssa.CallCommon, args []string, pos token.Pos) []string {
		u := fr.fc.e.u
		u.global(fmt.Sprintf("(declare-fun %s (Int) Bool)", name))
		r := args[0]
		res := fr.fc.sc.define("uni", "Bool", app(name, r))
		fr.fc.sc.assume(fmt.Sprintf("(=> (and (<= 0 %s) (< %s 128)) (= %s %s))", r, r, res, ascii(r)))
		// U+FFFD (what range yields for invalid bytes) is neither letter nor digit
		fr.fc.sc.assume(fmt.Sprintf("(=> (= %s 65533) (not %s))", r, res))
		return []string{res}
	}
}

func extHasPrefix(fr *frame, st *state, c *ssa.CallCommon, args []string, pos token.Pos) []string {
	sc := fr.fc.sc
	if lit, ok := litOf(c.Args[1]); ok {
		return []string{sc.define("hasprefix", "Bool", hasPrefixTerm(args[0], lit))}
	}
	fr.fc.e.u.global("(declare-fun str_hasprefix (Int Int) Bool)")
	r := sc.define("hasprefix", "Bool", app("str_hasprefix", app("skey", args[0]), app("skey", args[1])))
	sc.assume(fmt.Sprintf("(=> %s (>= (slen %s) (slen %s)))", r, args[0], args[1]))
	sc.assume(fmt.Sprintf("(=> (= (slen %s) 0) %s)", args[1], r))
	return []string{r}
}

func hasSuffixTerm(s, lit string) string {
	parts := []string{fmt.Sprintf("(>= (slen %s) %d)", s, len(lit))}
	for i := 0; i < len(lit); i++ {
		parts = append(parts, fmt.Sprintf("(= (sat %s (+ (- (slen %s) %d) %d)) %d)", s, s, len(lit), i, lit[i]))
	}
	return and(parts...)
}

// strings.TrimSuffix(s, "lit"): s without the suffix when it has it, s otherwise.
func extTrimSuffix(fr *frame, st *state, c *ssa.CallCommon, args []string, pos token.Pos) []string {
	sc := fr.fc.sc
	s := args[0]
	lit, ok := litOf(c.Args[1])
	if !ok {
		r := sc.declare("trimmed", "Str")
		sc.assume(fmt.Sprintf("(and (<= 0 (slo %s)) (<= (slo %s) (shi %s)) (<= (slen %s) (slen %s)))", r, r, r, r, s))
		return []string{r}
	}
	return []string{sc.define("trimmed", "Str", fmt.Sprintf("(ite %s (mkstr (sbase %s) (slo %s) (- (shi %s) %d)) %s)", hasSuffixTerm(s, lit), s, s, s, len(lit), s))}
}

func extHasSuffix(fr *frame, st *state, c *ssa.CallCommon, args []string, pos token.Pos) []string {
	sc := fr.fc.sc
	s := args[0]
	if lit, ok := litOf(c.Args[1]); ok {
		return []string{sc.define("hassuffix", "Bool", hasSuffixTerm(s, lit))}
	}
	fr.fc.e.u.global("(declare-fun str_hassuffix (Int Int) Bool)")
	r := sc.define("hassuffix", "Bool", app("str_hassuffix", app("skey", args[0]), app("skey", args[1])))
	sc.assume(fmt.Sprintf("(=> %s (>= (slen %s) (slen %s)))", r, args[0], args[1]))
	return []string{r}
}

// strings.Index(s, sep): first occurrence.
func extIndex(fr *frame, st *state, c *ssa.CallCommon, args []string, pos token.Pos) []string {
	sc := fr.fc.sc
	s, sep := args[0], args[1]
	var r string
	if lit, ok := litOf(c.Args[1]); ok && len(lit) > 0 {
		// a function of the string (so that Index and Contains on the same text agree)
		fn := "str_index_" + sanitize(fr.fc.e.u.lit(lit))
		fr.fc.e.u.global(fmt.Sprintf("(declare-fun %s (Str) Int)", fn))
		r = sc.define("index", "Int", app(fn, s))
	} else {
		r = sc.declare("index", "Int")
	}
	sc.assume(fmt.Sprintf("(and (>= %s (- 1)) (=> (>= %s 0) (<= (+ %s (slen %s)) (slen %s))))", r, r, r, sep, s))
	if lit, ok := litOf(c.Args[1]); ok && len(lit) > 0 {
		at := func(i string) string {
			var parts []string
			parts = append(parts, fmt.Sprintf("(<= (+ %s %d) (slen %s))", i, len(lit), s))
			for k := 0; k < len(lit); k++ {
				parts = append(parts, fmt.Sprintf("(= (sat %s (+ %s %d)) %d)", s, i, k, lit[k]))
			}
			return and(parts...)
		}
		sc.assume(fmt.Sprintf("(=> (>= %s 0) %s)", r, at(r)))
		j := sc.fresh("j")
		// no earlier occurrence (and none at all when -1)
		sc.assume(fmt.Sprintf("(forall ((%s Int)) (! (=> (and (<= 0 %s) (< %s (ite (>= %s 0) %s (slen %s)))) (not %s)) :pattern ((sat %s %s))))", j, j, j, r, r, s, at(j), s, j))
	} else if ok && len(lit) == 0 {
		sc.assume(eq(r, "0"))
	}
	return []string{r}
}

func extLastIndex(fr *frame, st *state, c *ssa.CallCommon, args []string, pos token.Pos) []string {
	sc := fr.fc.sc
	s, sep := args[0], args[1]
	r := sc.declare("lastindex", "Int")
	sc.assume(fmt.Sprintf("(and (>= %s (- 1)) (=> (>= %s 0) (<= (+ %s (slen %s)) (slen %s))))", r, r, r, sep, s))
	if lit, ok := litOf(c.Args[1]); ok && len(lit) == 1 {
		sc.assume(fmt.Sprintf("(=> (>= %s 0) (= (sat %s %s) %d))", r, s, r, lit[0]))
		j := sc.fresh("j")
		sc.assume(fmt.Sprintf("(forall ((%s Int)) (! (=> (and (< %s %s) (< %s (slen %s)) (<= 0 %s)) (not (= (sat %s %s) %d))) :pattern ((sat %s %s))))", j, r, j, j, s, j, s, j, lit[0], s, j))
		// ground instances for the last positions of the string (extensions, suffixes)
		for k := 1; k <= 8; k++ {
			sc.assume(fmt.Sprintf("(=> (and (<= 0 (- (slen %s) %d)) (> (- (slen %s) %d) %s)) (not (= (sat %s (- (slen %s) %d)) %d)))", s, k, s, k, r, s, s, k, lit[0]))
		}
		sc.assume(fmt.Sprintf("(=> (< %s 0) (forall ((%s Int)) (! (=> (and (<= 0 %s) (< %s (slen %s))) (not (= (sat %s %s) %d))) :pattern ((sat %s %s)))))", r, j+"b", j+"b", j+"b", s, s, j+"b", lit[0], s, j+"b"))
		if lit == "\n" {
			// ground consequences of the definitions of nlcum / lstartraw
			fr.fc.e.u.declareCounting()
			sc.assume(fmt.Sprintf("(= (>= %s 0) (> (- (nlcum (sbase %s) (shi %s)) (nlcum (sbase %s) (slo %s))) 0))", r, s, s, s, s))
			sc.assume(fmt.Sprintf("(=> (>= %s 0) (and (= (nlcum (sbase %s) (shi %s)) (nlcum (sbase %s) (+ (slo %s) %s 1))) (= (lstartraw (sbase %s) (shi %s)) (+ (slo %s) %s 1))))", r, s, s, s, s, r, s, s, s, r))
		}
	}
	return []string{r}
}

// strings.Count(s, sep) for a one-byte separator.
func extCount(fr *frame, st *state, c *ssa.CallCommon, args []string, pos token.Pos) []string {
	sc := fr.fc.sc
	s := args[0]
	r := sc.declare("count", "Int")
	sc.assume(fmt.Sprintf("(and (>= %s 0) (<= %s (+ (slen %s) 1)))", r, r, s))
	if lit, ok := litOf(c.Args[1]); ok && len(lit) == 1 {
		sc.assume(fmt.Sprintf("(<= %s (slen %s))", r, s))
		if lit == "\n" {
			fr.fc.e.u.declareCounting()
			sc.assume(fmt.Sprintf("(= %s (- (nlcum (sbase %s) (shi %s)) (nlcum (sbase %s) (slo %s))))", r, s, s, s, s))
			// no newline in the string: the line start does not move across it
			sc.assume(fmt.Sprintf("(=> (= %s 0) (= (lstartraw (sbase %s) (shi %s)) (lstartraw (sbase %s) (slo %s))))", r, s, s, s, s))
		}
	}
	return []string{r}
}

func extContains(fr *frame, st *state, c *ssa.CallCommon, args []string, pos token.Pos) []string {
	sc := fr.fc.sc
	var r string
	if lit, ok := litOf(c.Args[1]); ok && len(lit) > 0 {
		// Contains(s, lit) == (Index(s, lit) >= 0): the same function of the string
		fn := "str_index_" + sanitize(fr.fc.e.u.lit(lit))
		fr.fc.e.u.global(fmt.Sprintf("(declare-fun %s (Str) Int)", fn))
		r = sc.define("contains", "Bool", fmt.Sprintf("(>= (%s %s) 0)", fn, args[0]))
		sc.assume(fmt.Sprintf("(>= (%s %s) (- 1))", fn, args[0]))
	} else {
		r = sc.declare("contains", "Bool")
	}
	sc.assume(fmt.Sprintf("(=> %s (>= (slen %s) (slen %s)))", r, args[0], args[1]))
	return []string{r}
}

func extContainsAny(fr *frame, st *state, c *ssa.CallCommon, args []string, pos token.Pos) []string {
	sc := fr.fc.sc
	s := args[0]
	lit, ok := litOf(c.Args[1])
	if !ok || !isASCII(lit) {
		return []string{sc.declare("containsany", "Bool")}
	}
	member := func(b string) string {
		var alts []string
		for i := 0; i < len(lit); i++ {
			alts = append(alts, fmt.Sprintf("(= %s %d)", b, lit[i]))
		}
		return or(alts...)
	}
	rest := sc.declare("containsany_rest", "Bool")
	var alts []string
	for k := 0; k < 4; k++ {
		alts = append(alts, fmt.Sprintf("(and (> (slen %s) %d) %s)", s, k, member(fmt.Sprintf("(sat %s %d)", s, k))))
	}
	alts = append(alts, fmt.Sprintf("(and (> (slen %s) 4) %s)", s, rest))
	r := sc.define("containsany", "Bool", or(alts...))
	return []string{r}
}

func isASCII(s string) bool {
	for i := 0; i < len(s); i++ {
		if s[i] >= 128 {
			return false
		}
	}
	return true
}

func extRuneCount(fr *frame, st *state, c *ssa.CallCommon, args []string, pos token.Pos) []string {
	sc := fr.fc.sc
	r := sc.declare("runecount", "Int")
	sc.assume(fmt.Sprintf("(and (>= %s 0) (<= %s (slen %s)) (=> (> (slen %s) 0) (> %s 0)))", r, r, args[0], args[0], r))
	return []string{r}
}

// --- bytes.Buffer: content = BD[ref][0..BL[ref]) -----------------------------------------

func (fr *frame) bufAppendBytes(st *state, buf string, bytes []string, n string) {
	// append up to len(bytes) bytes; n is the (symbolic) number actually appended
	fc := fr.fc
	data := app("select", fc.hget(st, "BD"), buf)
	ln := fc.sc.define("blen", "Int", app("select", fc.hget(st, "BL"), buf))
	nd := data
	for i, b := range bytes {
		nd = fmt.Sprintf("(store %s (+ %s %d) %s)", nd, ln, i, b)
	}
	fc.hset(st, "BD", app("store", fc.hget(st, "BD"), buf, nd))
	fc.hset(st, "BL", app("store", fc.hget(st, "BL"), buf, fmt.Sprintf("(+ %s %s)", ln, n)))
}

func (fr *frame) bufAppendStr(st *state, buf string, s string, lit *string) {
	fc := fr.fc
	sc := fc.sc
	if lit != nil && len(*lit) <= 16 {
		var bs []string
		for i := 0; i < len(*lit); i++ {
			bs = append(bs, fmt.Sprint((*lit)[i]))
		}
		fr.bufAppendBytes(st, buf, bs, fmt.Sprint(len(*lit)))
		return
	}
	data := app("select", fc.hget(st, "BD"), buf)
	ln := sc.define("blen", "Int", app("select", fc.hget(st, "BL"), buf))
	nd := sc.declare("bdata", "(Array Int Int)")
	i := sc.fresh("i")
	sc.assume(fmt.Sprintf("(forall ((%s Int)) (! (= (select %s %s) (ite (and (>= %s %s) (< %s (+ %s (slen %s)))) (sat %s (- %s %s)) (select %s %s))) :pattern ((select %s %s))))", i, nd, i, i, ln, i, ln, s, s, i, ln, data, i, nd, i))
	fc.hset(st, "BD", app("store", fc.hget(st, "BD"), buf, nd))
	fc.hset(st, "BL", app("store", fc.hget(st, "BL"), buf, fmt.Sprintf("(+ %s (slen %s))", ln, s)))
}

func extBufWriteString(fr *frame, st *state, c *ssa.CallCommon, args []string, pos token.Pos) []string {
	var lit *string
	if s, ok := litOf(c.Args[1]); ok {
		lit = &s
	}
	fr.bufAppendStr(st, args[0], args[1], lit)
	return []string{app("slen", args[1]), "nilval"}
}

// utf8Bytes returns four byte terms and a width term for the UTF-8 encoding of rune r
// (assumed contract: ASCII is one byte equal to r; otherwise every byte is >= 0x80).
func (fr *frame) utf8Bytes(r string) ([]string, string) {
	sc := fr.fc.sc
	w := sc.declare("u8w", "Int")
	var bs []string
	for i := 0; i < 4; i++ {
		bs = append(bs, sc.declare(fmt.Sprintf("u8b%d", i), "Int"))
	}
	sc.assume(fmt.Sprintf("(and (>= %s 1) (<= %s 4))", w, w))
	sc.assume(fmt.Sprintf("(=> (and (>= %s 0) (< %s 128)) (and (= %s 1) (= %s %s)))", r, r, w, bs[0], r))
	sc.assume(fmt.Sprintf("(=> (or (< %s 0) (>= %s 128)) (and (>= %s 2) (>= %s 128) (<= %s 255) (>= %s 128) (<= %s 255) (>= %s 128) (<= %s 255) (>= %s 128) (<= %s 255)))", r, r, w, bs[0], bs[0], bs[1], bs[1], bs[2], bs[2], bs[3], bs[3]))
	return bs, w
}

func extBufWriteRune(fr *frame, st *state, c *ssa.CallCommon, args []string, pos token.Pos) []string {
	bs, w := fr.utf8Bytes(args[1])
	// bytes beyond the width are not part of the content (they lie beyond the new length)
	fr.bufAppendBytes(st, args[0], bs, w)
	return []string{w, "nilval"}
}

func extBufWriteByte(fr *frame, st *state, c *ssa.CallCommon, args []string, pos token.Pos) []string {
	fr.bufAppendBytes(st, args[0], []string{args[1]}, "1")
	return []string{"nilval"}
}

func extBufString(fr *frame, st *state, c *ssa.CallCommon, args []string, pos token.Pos) []string {
	fc := fr.fc
	s := fc.sc.define("bufstr", "Str", fmt.Sprintf("(mkstr (select %s %s) 0 (select %s %s))", fc.hget(st, "BD"), args[0], fc.hget(st, "BL"), args[0]))
	fc.sc.assume(fmt.Sprintf("(>= (shi %s) 0)", s))
	return []string{s}
}

func extBufBytes(fr *frame, st *state, c *ssa.CallCommon, args []string, pos token.Pos) []string {
	fc := fr.fc
	r := fr.freshRef(st, "bytes")
	bk := fc.e.u.arrKey(types.Typ[types.Byte])
	fc.hset(st, bk, app("store", fc.hget(st, bk), r, app("select", fc.hget(st, "BD"), args[0])))
	ln := app("select", fc.hget(st, "BL"), args[0])
	fc.sc.assume(fmt.Sprintf("(>= %s 0)", ln))
	return []string{fc.sc.define("bufbytes", "Slice", fmt.Sprintf("(mkslice %s 0 %s)", r, ln))}
}

// digitsTerms: bytes of the representation of n in the given base with minimum width minW
// (zero padded), at most maxD digits. Returns per-position byte terms (as ite over the digit
// count) and the count term.
func digitsTerms(sc *Script, n string, base int, minW, maxD int, upper bool) ([]string, string) {
	// count = max(minW, number of digits of n)
	pow := make([]int64, maxD+1)
	pow[0] = 1
	for i := 1; i <= maxD; i++ {
		pow[i] = pow[i-1] * int64(base)
	}
	cnt := fmt.Sprint(maxD)
	for d := maxD - 1; d >= 1; d-- {
		cnt = fmt.Sprintf("(ite (< %s %d) %d %s)", n, pow[d], d, cnt)
	}
	if minW > 1 {
		cnt = fmt.Sprintf("(ite (< %s %d) %d %s)", n, pow[minW], minW, cnt)
	}
	count := sc.define("ndigits", "Int", cnt)
	digitChar := func(d string) string {
		a := 87 // 'a' - 10
		if upper {
			a = 55 // 'A' - 10
		}
		return fmt.Sprintf("(ite (< %s 10) (+ 48 %s) (+ %d %s))", d, d, a, d)
	}
	var out []string
	for k := 0; k < maxD; k++ {
		// digit at position k when the count is c: (n div base^(c-1-k)) mod base
		t := "0"
		for cval := maxD; cval >= 1; cval-- {
			if cval-1-k < 0 {
				continue
			}
			d := fmt.Sprintf("(mod (div %s %d) %d)", n, pow[cval-1-k], base)
			t = fmt.Sprintf("(ite (= %s %d) %s %s)", count, cval, digitChar(d), t)
		}
		out = append(out, sc.define(fmt.Sprintf("digit%d", k), "Int", t))
	}
	return out, count
}

// fmt.Fprintf with a literal format made of literal bytes, %%, %d, %X, %0NX, %0Nx.
func extFprintf(fr *frame, st *state, c *ssa.CallCommon, args []string, pos token.Pos) []string {
	fc := fr.fc
	sc := fc.sc
	format, ok := litOf(c.Args[1])
	w := args[0]
	buf := app("vpay", w)
	fallback := func() []string {
		fc.unmodelled["fmt.Fprintf("+format+")"] = true
		fc.havocKeys(st, []string{"BD", "BL"})
		return fr.freshResults(st, c.Signature(), "fprintf")
	}
	if !ok {
		return fallback()
	}
	// argument j: element of the variadic []interface{} slice
	argv := func(j int) string {
		return fmt.Sprintf("(vpay (select (select %s (sref %s)) (+ (soff %s) %d)))", fc.hget(st, fc.e.u.arrKey(types.NewInterfaceType(nil, nil))), args[2], args[2], j)
	}
	argi := 0
	total := "0"
	for i := 0; i < len(format); i++ {
		ch := format[i]
		if ch != '%' {
			fr.bufAppendBytes(st, buf, []string{fmt.Sprint(ch)}, "1")
			total = "(+ " + total + " 1)"
			continue
		}
		i++
		if i >= len(format) {
			return fallback()
		}
		if format[i] == '%' {
			fr.bufAppendBytes(st, buf, []string{"37"}, "1")
			total = "(+ " + total + " 1)"
			continue
		}
		width := 0
		if format[i] == '0' {
			i++
			for i < len(format) && format[i] >= '0' && format[i] <= '9' {
				width = width*10 + int(format[i]-'0')
				i++
			}
		}
		if i >= len(format) {
			return fallback()
		}
		n := sc.define("fmtarg", "Int", argv(argi))
		argi++
		var ds []string
		var cnt string
		switch format[i] {
		case 'd':
			// non-negative integers up to 7 decimal digits (runes); negative handled as unmodelled
			sc.assume(implies(st.reach, fmt.Sprintf("(>= %s 0)", n)))
			ds, cnt = digitsTerms(sc, n, 10, width, 10, false)
		case 'X':
			sc.assume(implies(st.reach, fmt.Sprintf("(>= %s 0)", n)))
			ds, cnt = digitsTerms(sc, n, 16, width, 8, true)
		case 'x':
			sc.assume(implies(st.reach, fmt.Sprintf("(>= %s 0)", n)))
			ds, cnt = digitsTerms(sc, n, 16, width, 8, false)
		default:
			return fallback()
		}
		fr.bufAppendBytes(st, buf, ds, cnt)
		total = "(+ " + total + " " + cnt + ")"
	}
	return []string{sc.define("fprintf_n", "Int", total), "nilval"}
}

// io.WriteString(w, s): appends a prefix of s to the writer's ghost content; the whole of s iff err == nil.
// Ghost X|wfail|Bool records that some write has failed.
func extIOWriteString(fr *frame, st *state, c *ssa.CallCommon, args []string, pos token.Pos) []string {
	fc := fr.fc
	sc := fc.sc
	u := fc.e.u
	w, s := args[0], args[1]
	buf := app("vpay", w)
	if fr.sweepOn() {
		fr.oblige(st, "nil", fr.anchorText(pos, "callfull"), pos, fmt.Sprintf("(not (= (vtag %s) 0))", w), "write to nil io.Writer")
	}
	bufTag := u.tagOf(types.NewPointer(bytesBufferType(fc.e)))
	isBuf := fmt.Sprintf("(= (vtag %s) %d)", w, bufTag)
	n := sc.declare("written", "Int")
	errv := sc.declare("werr", "Val")
	sc.assume(fmt.Sprintf("(and (>= (vtag %s) 0) (<= 0 %s) (<= %s (slen %s)))", errv, n, n, s))
	sc.assume(fmt.Sprintf("(=> (= (vtag %s) 0) (= %s (slen %s)))", errv, n, s))
	sc.assume(fmt.Sprintf("(=> %s (= (vtag %s) 0))", isBuf, errv))
	// content: bytes [old, old+n) are s[0..n)
	data := app("select", fc.hget(st, "BD"), buf)
	ln := sc.define("wlen", "Int", app("select", fc.hget(st, "BL"), buf))
	nd := sc.declare("wdata", "(Array Int Int)")
	i := sc.fresh("i")
	sc.assume(fmt.Sprintf("(forall ((%s Int)) (! (= (select %s %s) (ite (and (>= %s %s) (< %s (+ %s %s))) (sat %s (- %s %s)) (select %s %s))) :pattern ((select %s %s))))", i, nd, i, i, ln, i, ln, n, s, i, ln, data, i, nd, i))
	// an arbitrary writer may also do other things allowed to callbacks
	fc.havocKeys(st, []string{"MD|Int|Val|map_string_stick.Value", "MV|Int|Val|map_string_stick.Value"})
	fc.hset(st, "BD", app("store", fc.hget(st, "BD"), buf, nd))
	fc.hset(st, "BL", app("store", fc.hget(st, "BL"), buf, fmt.Sprintf("(+ %s %s)", ln, n)))
	wf := "X|wfail|Bool"
	oldFail := fc.hget(st, wf)
	// ghost: a write was attempted after an earlier write had failed
	wa := "X|wafterfail|Bool"
	fc.hset(st, wa, or(fc.hget(st, wa), oldFail))
	fc.hset(st, wf, or(oldFail, fmt.Sprintf("(not (= (vtag %s) 0))", errv)))
	return []string{n, errv}
}

func bytesBufferType(e *Engine) types.Type {
	for _, p := range e.pkgs {
		for _, imp := range p.Imports {
			if imp.PkgPath == "bytes" {
				return imp.Types.Scope().Lookup("Buffer").Type()
			}
		}
	}
	return types.Typ[types.Int]
}

func extNewError(fr *frame, st *state, c *ssa.CallCommon, args []string, pos token.Pos) []string {
	sc := fr.fc.sc
	p := sc.declare("errobj", "Int")
	sc.assume(fmt.Sprintf("(> %s 0)", p))
	return []string{sc.define("err", "Val", fmt.Sprintf("(mkval %d %s)", errTag, p))}
}

var _ = strings.TrimSpace

// declareCounting declares the newline-counting spec functions (no axioms: every fact used is a
// ground consequence of the definitions, emitted where strings.Count / strings.LastIndex are called):
//   nlcum(B,k)     = #{ j in [0,k) : B[j] = '\n' }              (so a count over [a,b) is nlcum(B,b) - nlcum(B,a))
//   lstartraw(B,k) = 1 + max{ j < k : B[j] = '\n' }  (position just after the last newline before k)
func (u *Universe) declareCounting() {
	u.global("(declare-fun nlcum ((Array Int Int) Int) Int)")
	u.global("(declare-fun lstartraw ((Array Int Int) Int) Int)")
}

// fmt.Sprintf("%v", x): the result is a function of the value (fmtv); other formats: some string.
func extSprintf(fr *frame, st *state, c *ssa.CallCommon, args []string, pos token.Pos) []string {
	fc := fr.fc
	sc := fc.sc
	format, ok := litOf(c.Args[0])
	r := sc.declare("sprintf", "Str")
	sc.assume(fmt.Sprintf("(and (<= 0 (slo %s)) (<= (slo %s) (shi %s)))", r, r, r))
	if ok && format == "%v" {
		fc.e.u.global("(declare-fun sf_fmtv (Val) Str)")
		x := fmt.Sprintf("(select (select %s (sref %s)) (+ (soff %s) 0))", fc.hget(st, fc.e.u.arrKey(types.NewInterfaceType(nil, nil))), args[1], args[1])
		sc.assume(fmt.Sprintf("(= %s (sf_fmtv %s))", r, x))
	}
	return []string{r}
}

// math.Floor / math.Ceil as uninterpreted functions with their defining linear bounds; integrality is
// expressed through an integer witness (no to_int in the query).
func extFloorCeil(floor bool) extHandler {
	return func(fr *frame, st *state, c *ssa.CallCommon, args []string, pos token.Pos) []string {
		sc := fr.fc.sc
		u := fr.fc.e.u
		x := args[0]
		name := "rceil"
		if floor {
			name = "rfloor"
		}
		u.global(fmt.Sprintf("(declare-fun %s (Real) Real)", name))
		u.global(fmt.Sprintf("(declare-fun %s_int (Real) Int)", name))
		r := sc.define("m", "Real", app(name, x))
		if floor {
			sc.assume(fmt.Sprintf("(and (<= %s %s) (< %s (+ %s 1.0)) (= %s (to_real (%s_int %s))))", r, x, x, r, r, name, x))
		} else {
			sc.assume(fmt.Sprintf("(and (>= %s %s) (> %s (- %s 1.0)) (= %s (to_real (%s_int %s))))", r, x, x, r, r, name, x))
		}
		return []string{r}
	}
}

// io.Copy(dst, src) with src a *bytes.Buffer: appends a prefix of src's content to dst's ghost content; all of
// it iff err == nil. Sets the wfail ghost like io.WriteString.
func extIOCopy(fr *frame, st *state, c *ssa.CallCommon, args []string, pos token.Pos) []string {
	fc := fr.fc
	sc := fc.sc
	dst, src := app("vpay", args[0]), app("vpay", args[1])
	if fr.sweepOn() {
		fr.oblige(st, "nil", fr.anchorText(pos, "callfull"), pos, fmt.Sprintf("(not (= (vtag %s) 0))", args[0]), "copy to nil io.Writer")
	}
	n := sc.declare("copied", "Int")
	errv := sc.declare("cerr", "Val")
	slen := sc.define("srclen", "Int", app("select", fc.hget(st, "BL"), src))
	sdata := app("select", fc.hget(st, "BD"), src)
	sc.assume(fmt.Sprintf("(and (>= (vtag %s) 0) (<= 0 %s) (<= %s %s) (=> (= (vtag %s) 0) (= %s %s)) (=> (= (vtag %s) 0) (= (vpay %s) 0)))", errv, n, n, slen, errv, n, slen, errv, errv))
	data := app("select", fc.hget(st, "BD"), dst)
	ln := sc.define("dlen", "Int", app("select", fc.hget(st, "BL"), dst))
	nd := sc.declare("cdata", "(Array Int Int)")
	i := sc.fresh("i")
	sc.assume(fmt.Sprintf("(forall ((%s Int)) (! (= (select %s %s) (ite (and (>= %s %s) (< %s (+ %s %s))) (select %s (- %s %s)) (select %s %s))) :pattern ((select %s %s))))", i, nd, i, i, ln, i, ln, n, sdata, i, ln, data, i, nd, i))
	fc.hset(st, "BD", app("store", fc.hget(st, "BD"), dst, nd))
	fc.hset(st, "BL", app("store", fc.hget(st, "BL"), dst, fmt.Sprintf("(+ %s %s)", ln, n)))
	wf := "X|wfail|Bool"
	oldFail := fc.hget(st, wf)
	fc.hset(st, "X|wafterfail|Bool", or(fc.hget(st, "X|wafterfail|Bool"), oldFail))
	fc.hset(st, wf, or(oldFail, fmt.Sprintf("(not (= (vtag %s) 0))", errv)))
	return []string{n, errv}
}


// os.Open / (*os.File).Close: the ghost counter openfiles() is the number of files this process holds open on behalf
// of the code under verification (C19). Open adds one exactly when it succeeds; Close takes one away.
func extOSOpen(fr *frame, st *state, c *ssa.CallCommon, args []string, pos token.Pos) []string {
	fc := fr.fc
	sc := fc.sc
	errv := sc.declare("openerr", "Val")
	sc.assume(fmt.Sprintf("(and (>= (vtag %s) 0) (=> (= (vtag %s) 0) (= (vpay %s) 0)))", errv, errv, errv))
	ref := fr.freshRef(st, "file")
	f := sc.define("file", "Int", fmt.Sprintf("(ite (= (vtag %s) 0) %s 0)", errv, ref))
	k := "X|openfiles|Int"
	fc.hset(st, k, fmt.Sprintf("(ite (= (vtag %s) 0) (+ %s 1) %s)", errv, fc.hget(st, k), fc.hget(st, k)))
	return []string{f, errv}
}

func extFileClose(fr *frame, st *state, c *ssa.CallCommon, args []string, pos token.Pos) []string {
	fc := fr.fc
	sc := fc.sc
	errv := sc.declare("closeerr", "Val")
	sc.assume(fmt.Sprintf("(>= (vtag %s) 0)", errv))
	k := "X|openfiles|Int"
	fc.hset(st, k, fmt.Sprintf("(- %s 1)", fc.hget(st, k)))
	return []string{errv}
}
