package main

// Go types -> SMT sorts; struct datatypes; interface tags; heap keys.

import (
	"fmt"
	"go/types"
	"regexp"
	"sort"
	"strings"
)

type TV struct {
	T    string     // SMT term
	Sort string     // SMT sort
	Typ  types.Type // Go type if known
}

type structInfo struct {
	name   string // datatype sort name
	ctor   string
	fields []string // accessor names
	sorts  []string
	gnames []string // go field names
	typ    *types.Struct
	named  string // qualified go name
}

type Universe struct {
	repoPrefix string
	structs    map[string]*structInfo // by qualified go name
	structDecl []string               // ordered datatype declarations
	tags       map[string]int         // type string -> tag id
	tagTypes   []types.Type           // index tag-1
	ifaceFacts map[string]bool        // interfaces for which impl_ facts were emitted
	ifaces     map[string]*types.Interface
	boxSorts   map[string]bool
	globals    []string // global declarations (ordered)
	tagged     map[string]string // global line -> symbol that must occur in the query for it to be included
	sortTypes  map[string]types.Type // struct sort name -> Go type
	globalSet  map[string]bool
	lits       map[string]string
	fnids      map[string]int
	ghost      map[string]string // "pkg.Type.field" -> sort
}

func newUniverse() *Universe {
	return &Universe{
		repoPrefix: "github.com/tyler-sommer/stick",
		structs:    map[string]*structInfo{}, tags: map[string]int{},
		ifaceFacts: map[string]bool{}, ifaces: map[string]*types.Interface{},
		boxSorts: map[string]bool{}, globalSet: map[string]bool{}, lits: map[string]string{},
		fnids: map[string]int{}, ghost: map[string]string{}, tagged: map[string]string{}, sortTypes: map[string]types.Type{},
	}
}

func (u *Universe) global(decl string) {
	if !u.globalSet[decl] {
		u.globalSet[decl] = true
		u.globals = append(u.globals, decl)
	}
}

func shortPkg(path string) string {
	if i := strings.LastIndex(path, "/"); i >= 0 {
		return path[i+1:]
	}
	return path
}

func qualName(n *types.Named) string {
	o := n.Obj()
	if o.Pkg() == nil {
		return o.Name()
	}
	return shortPkg(o.Pkg().Path()) + "." + o.Name()
}

func (u *Universe) isRepo(n *types.Named) bool {
	if n.Obj().Pkg() != nil && n.Obj().Pkg().Path() == "reflect" && n.Obj().Name() == "StructField" {
		// a plain record (no hidden state): modelled as a struct value like the repository's own
		return true
	}
	return n.Obj().Pkg() != nil && strings.HasPrefix(n.Obj().Pkg().Path(), u.repoPrefix)
}

// sortOf maps a Go type to an SMT sort.
func (u *Universe) sortOf(t types.Type) string {
	switch tt := t.(type) {
	case *types.Named:
		if st, ok := tt.Underlying().(*types.Struct); ok {
			if u.isRepo(tt) {
				return u.structSort(tt, st).name
			}
			return "Int" // opaque external struct (reflect.Value, bytes.Buffer, decimal.Decimal ...)
		}
		return u.sortOf(tt.Underlying())
	case *types.Alias:
		return u.sortOf(types.Unalias(tt))
	case *types.Basic:
		switch {
		case tt.Info()&types.IsBoolean != 0:
			return "Bool"
		case tt.Info()&types.IsInteger != 0:
			return "Int"
		case tt.Info()&types.IsFloat != 0:
			return "Real"
		case tt.Info()&types.IsString != 0:
			return "Str"
		case tt.Kind() == types.UnsafePointer:
			return "Int"
		case tt.Kind() == types.UntypedNil:
			return "Int"
		}
		return "Int"
	case *types.Pointer, *types.Map, *types.Chan, *types.Signature:
		return "Int"
	case *types.Slice:
		return "Slice"
	case *types.Interface:
		return "Val"
	case *types.Struct:
		// anonymous struct
		return u.anonStruct(tt).name
	case *types.Array:
		return "(Array Int " + u.sortOf(tt.Elem()) + ")"
	case *types.Tuple:
		return "Tuple"
	}
	return "Int"
}

func (u *Universe) anonStruct(st *types.Struct) *structInfo {
	key := "anon:" + st.String()
	if si, ok := u.structs[key]; ok {
		return si
	}
	return u.buildStruct(key, fmt.Sprintf("S_anon%d", len(u.structs)), st)
}

func (u *Universe) structSort(n *types.Named, st *types.Struct) *structInfo {
	q := qualName(n)
	if si, ok := u.structs[q]; ok {
		return si
	}
	si := u.buildStruct(q, "S_"+sanitize(q), st)
	u.sortTypes[si.name] = n
	return si
}

func (u *Universe) buildStruct(q, name string, st *types.Struct) *structInfo {
	si := &structInfo{name: name, ctor: "mk_" + name, typ: st, named: q}
	u.structs[q] = si
	var parts []string
	for i := 0; i < st.NumFields(); i++ {
		f := st.Field(i)
		fs := u.sortOf(f.Type())
		acc := name + "." + f.Name()
		si.fields = append(si.fields, acc)
		si.sorts = append(si.sorts, fs)
		si.gnames = append(si.gnames, f.Name())
		parts = append(parts, fmt.Sprintf("(%s %s)", acc, fs))
	}
	if len(si.fields) > 0 {
		structFirstField[name] = si.fields[0]
	}
	if len(parts) == 0 {
		u.structDecl = append(u.structDecl, fmt.Sprintf("(declare-datatypes ((%s 0)) (((%s))))", name, si.ctor))
	} else {
		u.structDecl = append(u.structDecl, fmt.Sprintf("(declare-datatypes ((%s 0)) (((%s %s))))", name, si.ctor, strings.Join(parts, " ")))
	}
	return si
}

// structInfoOf returns struct info for a (possibly named) struct type in the repo, or nil.
func (u *Universe) structInfoOf(t types.Type) *structInfo {
	t = types.Unalias(t)
	switch tt := t.(type) {
	case *types.Named:
		if st, ok := tt.Underlying().(*types.Struct); ok && u.isRepo(tt) {
			return u.structSort(tt, st)
		}
	case *types.Struct:
		return u.anonStruct(tt)
	}
	return nil
}

// fieldKey is the heap key for field i of struct type t.
func (u *Universe) fieldKey(t types.Type, i int) (key string, sort string, fname string) {
	t = types.Unalias(t)
	var st *types.Struct
	var q string
	switch tt := t.(type) {
	case *types.Named:
		st, _ = tt.Underlying().(*types.Struct)
		if pk := tt.Obj().Pkg(); pk != nil {
			q = shortPkg(pk.Path()) + "." + tt.Obj().Name()
		} else {
			q = tt.Obj().Name()
		}
	case *types.Struct:
		st = tt
		q = u.anonStruct(tt).name
	}
	if st == nil {
		return "", "", ""
	}
	f := st.Field(i)
	fs := u.sortOf(f.Type())
	return "F|" + q + "." + f.Name() + "|" + fs, fs, f.Name()
}

func (u *Universe) zero(sort string) string {
	switch sort {
	case "Int":
		return "0"
	case "Bool":
		return "false"
	case "Real":
		return "0.0"
	case "Str":
		return u.lit("")
	case "Slice":
		return "(mkslice 0 0 0)"
	case "Val":
		return "(mkval 0 0)"
	}
	for _, si := range u.structs {
		if si.name == sort {
			args := make([]string, len(si.sorts))
			for i, s := range si.sorts {
				args[i] = u.zero(s)
			}
			return app(si.ctor, args...)
		}
	}
	if strings.HasPrefix(sort, "(Array Int ") {
		inner := strings.TrimSuffix(strings.TrimPrefix(sort, "(Array Int "), ")")
		return fmt.Sprintf("((as const %s) %s)", sort, u.zero(inner))
	}
	return "0"
}

// lit returns a global constant for a string literal.
func (u *Universe) lit(s string) string {
	if n, ok := u.lits[s]; ok {
		return n
	}
	n := fmt.Sprintf("lit%d", len(u.lits))
	u.lits[s] = n
	u.global(fmt.Sprintf("(declare-fun %s () Str)", n))
	facts := []string{fmt.Sprintf("(= (slo %s) 0)", n), fmt.Sprintf("(= (shi %s) %d)", n, len(s))}
	for i := 0; i < len(s); i++ {
		facts = append(facts, fmt.Sprintf("(= (select (sbase %s) %d) %d)", n, i, s[i]))
	}
	u.global(fmt.Sprintf("(assert %s)", and(facts...)))
	return n
}

// tagOf returns the interface tag of a concrete type.
func (u *Universe) tagOf(t types.Type) int {
	t = types.Unalias(t)
	k := t.String()
	if id, ok := u.tags[k]; ok {
		return id
	}
	id := len(u.tags) + 1
	u.tags[k] = id
	u.tagTypes = append(u.tagTypes, t)
	return id
}

// implPred returns the name of the predicate "tag implements iface", declaring it.
func (u *Universe) implPred(it *types.Interface, name string) string {
	p := "impl_" + sanitize(name)
	u.ifaces[p] = it
	u.global(fmt.Sprintf("(declare-fun %s (Int) Bool)", p))
	u.global(fmt.Sprintf("(assert (not (%s 0)))", p))
	return p
}

// implFacts emits, for every known tag, whether it implements each used interface.
// Called when the final query is assembled (all tags known by then).
func (u *Universe) implFacts() []string {
	var out []string
	// reflect.Kind of every known dynamic type
	if u.globalSet["(declare-fun kindof (Int) Int)"] {
		for i, t := range u.tagTypes {
			out = append(out, fmt.Sprintf("(assert (= (kindof %d) %d))", i+1, reflectKind(t)))
		}
		out = append(out, "(assert (= (kindof 0) 0))")
	}
	if u.globalSet["(declare-fun cmpable (Int) Bool)"] {
		for i, t := range u.tagTypes {
			out = append(out, fmt.Sprintf("(assert (= (cmpable %d) %v))", i+1, types.Comparable(t)))
		}
		out = append(out, "(assert (cmpable 0))")
	}
	var names []string
	for p := range u.ifaces {
		names = append(names, p)
	}
	sort.Strings(names)
	for _, p := range names {
		it := u.ifaces[p]
		for i, t := range u.tagTypes {
			ok := types.Implements(t, it)
			if ok {
				out = append(out, fmt.Sprintf("(assert (%s %d))", p, i+1))
			} else {
				out = append(out, fmt.Sprintf("(assert (not (%s %d)))", p, i+1))
			}
		}
	}
	return out
}

// box/unbox for non-Int payloads
func (u *Universe) boxFns(sort string) (box, unbox string) {
	s := sanitize(sort)
	box, unbox = "box_"+s, "unbox_"+s
	if !u.boxSorts[sort] {
		u.boxSorts[sort] = true
		u.global(fmt.Sprintf("(declare-fun %s (%s) Int)", box, sort))
		u.global(fmt.Sprintf("(declare-fun %s (Int) %s)", unbox, sort))
	}
	return
}

func (u *Universe) fnID(name string) string {
	id, ok := u.fnids[name]
	if !ok {
		id = len(u.fnids) + 1
		u.fnids[name] = id
	}
	return fmt.Sprint(1000000 + id)
}

// globalIf adds a global line that is only included in queries mentioning sym.
func (u *Universe) globalIf(sym, decl string) {
	u.tagged[decl] = sym
	u.global(decl)
}

// header assembles all global declarations.
func (u *Universe) header() string { return u.headerFor("") }

// headerFor assembles the global declarations relevant to a query body: a declaration is kept when
// its symbol occurs in the body or in a kept declaration; an axiom when the symbol it is about does.
// (body "" keeps everything.)
func (u *Universe) headerFor(body string) string {
	var sb strings.Builder
	sb.WriteString(smtPrelude)
	for _, d := range u.structDecl {
		sb.WriteString(d)
		sb.WriteString("\n")
	}
	all := append(append([]string{}, u.globals...), u.implFacts()...)
	if body == "" {
		for _, g := range all {
			sb.WriteString(g)
			sb.WriteString("\n")
		}
		return sb.String()
	}
	syms := make([]string, len(all))
	for i, g := range all {
		syms[i] = declaredSym(g)
	}
	keep := make([]bool, len(all))
	text := body
	changed := true
	for changed {
		changed = false
		for i, g := range all {
			if keep[i] {
				continue
			}
			sym := syms[i]
			if sym == "" {
				// assert: tagged symbol, or first symbol it mentions among declared ones
				if t, ok := u.tagged[g]; ok {
					sym = t
				} else {
					sym = assertSym(g)
				}
			}
			if sym == "" || containsSym(text, sym) {
				keep[i] = true
				text += "\n" + g
				changed = true
			}
		}
	}
	for i, g := range all {
		if keep[i] {
			sb.WriteString(g)
			sb.WriteString("\n")
		}
	}
	// distinct string literals have distinct canonical keys (map keys, string equality)
	var ls []string
	for _, n := range u.lits {
		if containsSym(text, n) {
			ls = append(ls, "(skey "+n+")")
		}
	}
	if len(ls) >= 2 {
		sort.Strings(ls)
		sb.WriteString("(assert (distinct " + strings.Join(ls, " ") + "))\n")
	}
	return sb.String()
}

func declaredSym(g string) string {
	for _, p := range []string{"(declare-fun ", "(define-fun ", "(declare-const "} {
		if strings.HasPrefix(g, p) {
			rest := g[len(p):]
			if i := strings.IndexAny(rest, " )"); i > 0 {
				return rest[:i]
			}
		}
	}
	return ""
}

var assertSymRe = regexp.MustCompile(`(lit\d+|impl_[A-Za-z0-9_.]+|sf_[A-Za-z0-9_]+|unbox_[A-Za-z0-9_.]+|kindof)`)

func assertSym(g string) string {
	return assertSymRe.FindString(g)
}

func containsSym(text, sym string) bool {
	i := 0
	for {
		j := strings.Index(text[i:], sym)
		if j < 0 {
			return false
		}
		e := i + j + len(sym)
		if e >= len(text) || !isSymChar(text[e]) {
			if i+j == 0 || !isSymChar(text[i+j-1]) {
				return true
			}
		}
		i = e
	}
}

func isSymChar(c byte) bool {
	return c == '_' || c == '.' || c == '!' || (c >= '0' && c <= '9') || (c >= 'a' && c <= 'z') || (c >= 'A' && c <= 'Z')
}

func heapSort(u *Universe, key string) string {
	// key forms: F|q.field (needs registered sort), C|sort, A|sort, MD|k|v, MV|k|v, BD, BL, G|..., IT, X|name|sort
	parts := strings.Split(strings.SplitN(key, "@", 2)[0], "|")
	switch parts[0] {
	case "C":
		return "(Array Int " + parts[1] + ")"
	case "A":
		return "(Array Int (Array Int " + parts[1] + "))"
	case "MD":
		return "(Array Int (Array " + parts[1] + " Bool))"
	case "MV":
		return "(Array Int (Array " + parts[1] + " " + parts[2] + "))"
	case "ML":
		return "(Array Int Int)"
	case "BD":
		return "(Array Int (Array Int Int))"
	case "BL", "IT":
		return "(Array Int Int)"
	case "ITV": // visited set of a map iterator: iterator id -> (key -> visited)
		return "(Array Int (Array " + parts[1] + " Bool))"
	case "ESC":
		return "(Array Int Bool)"
	case "X": // X|name|sort : plain ghost/global value
		return parts[2]
	case "GA":
		return "(Array Int (Array Int " + parts[2] + "))"
	case "F", "G":
		return "(Array Int " + parts[2] + ")" // F|q.field|sort
	}
	panic("heapSort: unknown key " + key)
}

// arrKey is the heap key of backing arrays with the given element type. Arrays of different Go element
// types never alias, so they get separate keys (A|<sort>|<type>).
func (u *Universe) arrKey(elem types.Type) string {
	ts := types.TypeString(types.Unalias(elem), func(p *types.Package) string { return p.Name() })
	if b, ok := elem.Underlying().(*types.Basic); ok && b.Kind() == types.Uint8 {
		ts = "byte"
	}
	if it, ok := elem.Underlying().(*types.Interface); ok && it.NumMethods() == 0 {
		ts = "any"
	}
	return "A|" + u.sortOf(elem) + "|" + sanitize(ts)
}

// reflectKind returns the reflect.Kind number of a Go type.
func reflectKind(t types.Type) int {
	switch tt := t.Underlying().(type) {
	case *types.Basic:
		switch tt.Kind() {
		case types.Bool:
			return 1
		case types.Int:
			return 2
		case types.Int8:
			return 3
		case types.Int16:
			return 4
		case types.Int32:
			return 5
		case types.Int64:
			return 6
		case types.Uint:
			return 7
		case types.Uint8:
			return 8
		case types.Uint16:
			return 9
		case types.Uint32:
			return 10
		case types.Uint64:
			return 11
		case types.Uintptr:
			return 12
		case types.Float32:
			return 13
		case types.Float64:
			return 14
		case types.Complex64:
			return 15
		case types.Complex128:
			return 16
		case types.String:
			return 24
		case types.UnsafePointer:
			return 26
		}
	case *types.Array:
		return 17
	case *types.Chan:
		return 18
	case *types.Signature:
		return 19
	case *types.Interface:
		return 20
	case *types.Map:
		return 21
	case *types.Pointer:
		return 22
	case *types.Slice:
		return 23
	case *types.Struct:
		return 25
	}
	return 0
}
