package main

// Contract language: lexer, parser, contract-file reader.
//
//   //@ func parse.(*lexer).next
//   //@   requires linv(l)
//   //@   ensures adv: old(l.pos) < len(l.input) ==> l.pos == old(l.pos)+1
//   //@   loop 1 invariant linv(l)
//   //@   loop 1 decreases len(l.input) - l.pos
//   //@ pred linv(l *lexer) = 0 <= l.start && l.start <= l.pos && l.pos <= len(l.input)
//   //@ spec nlcount(string, int, int) int
//   //@ axiom name: forall a, b :: ...
//   //@ lemma name: expr

import (
	"fmt"
	"os"
	"regexp"
	"strconv"
	"strings"
	"unicode"
)

type SExpr interface{}

type (
	SIdent  struct{ Name string }
	SInt    struct{ V int64 }
	SStr    struct{ V string }
	SBool   struct{ V bool }
	SNil    struct{}
	SUnary  struct{ Op string; X SExpr }
	SBinary struct{ Op string; L, R SExpr }
	SSel    struct{ X SExpr; Name string }
	SIndex  struct{ X, I SExpr }
	SSlice  struct{ X, Lo, Hi SExpr }
	SCall   struct{ Fn string; Args []SExpr }
	SOld    struct{ X SExpr }
	SPrev   struct{ X SExpr }
	SEntry  struct{ X SExpr }
	SQuant  struct {
		Forall  bool
		Vars    []string
		Sorts   []string // sort of each bound variable (Int when absent)
		Body    SExpr
		Bounded bool // "forall k in [lo, hi) :: body" with constant bounds: expanded
		Lo, Hi  int64
		Trig    bool // "forall k trig :: body": use the select terms indexed by k as E-matching patterns
	}
	SIte struct{ C, A, B SExpr }
)

type specLexer struct {
	src string
	pos int
	tok string // current token text
	kind byte  // 'i' ident, 'n' number, 's' string, 'c' char, 'o' operator, 0 EOF
}

func (l *specLexer) next() {
	for l.pos < len(l.src) && (l.src[l.pos] == ' ' || l.src[l.pos] == '\t') {
		l.pos++
	}
	if l.pos >= len(l.src) {
		l.kind, l.tok = 0, ""
		return
	}
	c := l.src[l.pos]
	start := l.pos
	switch {
	case unicode.IsLetter(rune(c)) || c == '_':
		for l.pos < len(l.src) && (unicode.IsLetter(rune(l.src[l.pos])) || unicode.IsDigit(rune(l.src[l.pos])) || l.src[l.pos] == '_') {
			l.pos++
		}
		l.kind, l.tok = 'i', l.src[start:l.pos]
	case unicode.IsDigit(rune(c)):
		for l.pos < len(l.src) && (unicode.IsDigit(rune(l.src[l.pos])) || l.src[l.pos] == 'x' || (l.src[l.pos] >= 'a' && l.src[l.pos] <= 'f') || (l.src[l.pos] >= 'A' && l.src[l.pos] <= 'F')) {
			l.pos++
		}
		l.kind, l.tok = 'n', l.src[start:l.pos]
	case c == '"':
		l.pos++
		for l.pos < len(l.src) && l.src[l.pos] != '"' {
			if l.src[l.pos] == '\\' {
				l.pos++
			}
			l.pos++
		}
		l.pos++
		l.kind, l.tok = 's', l.src[start:l.pos]
	case c == '\'':
		l.pos++
		for l.pos < len(l.src) && l.src[l.pos] != '\'' {
			if l.src[l.pos] == '\\' {
				l.pos++
			}
			l.pos++
		}
		l.pos++
		l.kind, l.tok = 'c', l.src[start:l.pos]
	default:
		for _, op := range []string{"==>", "<==>", "::", "==", "!=", "<=", ">=", "&&", "||"} {
			if strings.HasPrefix(l.src[l.pos:], op) {
				l.pos += len(op)
				l.kind, l.tok = 'o', op
				return
			}
		}
		l.pos++
		l.kind, l.tok = 'o', string(c)
	}
}

type specParser struct {
	lx  specLexer
	err error
}

func parseSpecExpr(src string) (e SExpr, err error) {
	p := &specParser{lx: specLexer{src: src}}
	defer func() {
		if r := recover(); r != nil {
			err = fmt.Errorf("spec parse error in %q: %v", src, r)
		}
	}()
	p.lx.next()
	e = p.parseExpr()
	if p.lx.kind != 0 {
		panic("trailing input at " + p.lx.tok)
	}
	return e, nil
}

func (p *specParser) accept(tok string) bool {
	if p.lx.kind != 0 && p.lx.kind != 's' && p.lx.kind != 'c' && p.lx.tok == tok {
		p.lx.next()
		return true
	}
	return false
}

func (p *specParser) expect(tok string) {
	if !p.accept(tok) {
		panic(fmt.Sprintf("expected %q, got %q", tok, p.lx.tok))
	}
}

func (p *specParser) parseExpr() SExpr {
	if p.lx.kind == 'i' && (p.lx.tok == "forall" || p.lx.tok == "exists") {
		fa := p.lx.tok == "forall"
		p.lx.next()
		var vars, sorts []string
		for {
			if p.lx.kind != 'i' {
				panic("expected variable name")
			}
			vars = append(vars, p.lx.tok)
			p.lx.next()
			// optional sort of the bound variable: forall t:val, n:string, k :: ... (int when omitted)
			srt := "Int"
			if p.lx.tok == ":" {
				p.lx.next()
				switch p.lx.tok {
				case "val":
					srt = "Val"
				case "string":
					srt = "Str"
				case "strkey":
					srt = "StrKey" // ranges over strings as uninterpreted spec functions see them (their canonical key)
				case "bool":
					srt = "Bool"
				case "int":
					srt = "Int"
				default:
					panic("unknown sort of bound variable: " + p.lx.tok)
				}
				p.lx.next()
			}
			sorts = append(sorts, srt)
			if !p.accept(",") {
				break
			}
		}
		if p.lx.kind == 'i' && p.lx.tok == "in" {
			p.lx.next()
			p.expect("[")
			lo := p.parseAdd()
			p.expect(",")
			hi := p.parseAdd()
			p.expect(")")
			p.expect("::")
			li, ok1 := lo.(*SInt)
			hi2, ok2 := hi.(*SInt)
			if !ok1 || !ok2 {
				panic("bounded quantifier needs constant bounds")
			}
			return &SQuant{Forall: fa, Vars: vars, Body: p.parseExpr(), Bounded: true, Lo: li.V, Hi: hi2.V}
		}
		trig := false
		if p.lx.kind == 'i' && p.lx.tok == "trig" {
			trig = true
			p.lx.next()
		}
		p.expect("::")
		return &SQuant{Forall: fa, Vars: vars, Sorts: sorts, Body: p.parseExpr(), Trig: trig}
	}
	return p.parseIff()
}

func (p *specParser) parseIff() SExpr {
	l := p.parseImplies()
	for p.accept("<==>") {
		r := p.parseImplies()
		l = &SBinary{"<==>", l, r}
	}
	return l
}

func (p *specParser) parseImplies() SExpr {
	l := p.parseOr()
	if p.accept("==>") {
		// right associative; allow quantifier on the right
		var r SExpr
		if p.lx.kind == 'i' && (p.lx.tok == "forall" || p.lx.tok == "exists") {
			r = p.parseExpr()
		} else {
			r = p.parseImplies()
		}
		return &SBinary{"==>", l, r}
	}
	return l
}

func (p *specParser) parseOr() SExpr {
	l := p.parseAnd()
	for p.accept("||") {
		l = &SBinary{"||", l, p.parseAnd()}
	}
	return l
}

func (p *specParser) parseAnd() SExpr {
	l := p.parseCmp()
	for p.accept("&&") {
		l = &SBinary{"&&", l, p.parseCmp()}
	}
	return l
}

func (p *specParser) parseCmp() SExpr {
	l := p.parseAdd()
	for _, op := range []string{"==", "!=", "<=", ">=", "<", ">"} {
		if p.accept(op) {
			return &SBinary{op, l, p.parseAdd()}
		}
	}
	return l
}

func (p *specParser) parseAdd() SExpr {
	l := p.parseMul()
	for {
		if p.accept("+") {
			l = &SBinary{"+", l, p.parseMul()}
		} else if p.accept("-") {
			l = &SBinary{"-", l, p.parseMul()}
		} else {
			return l
		}
	}
}

func (p *specParser) parseMul() SExpr {
	l := p.parseUnary()
	for {
		if p.accept("*") {
			l = &SBinary{"*", l, p.parseUnary()}
		} else if p.accept("/") {
			l = &SBinary{"/", l, p.parseUnary()}
		} else if p.accept("%") {
			l = &SBinary{"%", l, p.parseUnary()}
		} else {
			return l
		}
	}
}

func (p *specParser) parseUnary() SExpr {
	if p.accept("!") {
		return &SUnary{"!", p.parseUnary()}
	}
	if p.accept("-") {
		return &SUnary{"-", p.parseUnary()}
	}
	return p.parsePostfix()
}

func (p *specParser) parsePostfix() SExpr {
	x := p.parsePrimary()
	for {
		switch {
		case p.accept("."):
			if p.lx.kind != 'i' {
				panic("expected field name after '.'")
			}
			x = &SSel{x, p.lx.tok}
			p.lx.next()
		case p.accept("["):
			var lo, hi SExpr
			if p.accept(":") {
				if !p.accept("]") {
					hi = p.parseExpr()
					p.expect("]")
				}
				x = &SSlice{x, nil, hi}
				continue
			}
			lo = p.parseExpr()
			if p.accept(":") {
				if !p.accept("]") {
					hi = p.parseExpr()
					p.expect("]")
				}
				x = &SSlice{x, lo, hi}
				continue
			}
			p.expect("]")
			x = &SIndex{x, lo}
		default:
			return x
		}
	}
}

func (p *specParser) parsePrimary() SExpr {
	switch p.lx.kind {
	case 'n':
		v, err := strconv.ParseInt(p.lx.tok, 0, 64)
		if err != nil {
			panic(err)
		}
		p.lx.next()
		return &SInt{v}
	case 's':
		v, err := strconv.Unquote(p.lx.tok)
		if err != nil {
			panic(err)
		}
		p.lx.next()
		return &SStr{v}
	case 'c':
		v, _, _, err := strconv.UnquoteChar(p.lx.tok[1:len(p.lx.tok)-1], '\'')
		if err != nil {
			panic(err)
		}
		p.lx.next()
		return &SInt{int64(v)}
	case 'i':
		name := p.lx.tok
		p.lx.next()
		switch name {
		case "true":
			return &SBool{true}
		case "false":
			return &SBool{false}
		case "nil":
			return &SNil{}
		case "old":
			p.expect("(")
			e := p.parseExpr()
			p.expect(")")
			return &SOld{e}
		case "entry":
			p.expect("(")
			e := p.parseExpr()
			p.expect(")")
			return &SEntry{e}
		case "prev":
			p.expect("(")
			e := p.parseExpr()
			p.expect(")")
			return &SPrev{e}
		case "ite":
			p.expect("(")
			c := p.parseExpr()
			p.expect(",")
			a := p.parseExpr()
			p.expect(",")
			b := p.parseExpr()
			p.expect(")")
			return &SIte{c, a, b}
		}
		if p.accept("(") {
			var args []SExpr
			if !p.accept(")") {
				for {
					args = append(args, p.parseExpr())
					if p.accept(")") {
						break
					}
					p.expect(",")
				}
			}
			return &SCall{name, args}
		}
		return &SIdent{name}
	case 'o':
		if p.accept("(") {
			e := p.parseExpr()
			p.expect(")")
			return e
		}
	}
	panic(fmt.Sprintf("unexpected token %q", p.lx.tok))
}

// ---------------------------------------------------------------------------
// Contract files

type Clause struct {
	Case  string // asserts@<case text>: only at returns inside that switch arm
	Strict bool  // asserts!: returns that do not pass the definition of the clause's locals must return an error
	Label string
	Src   string
	Expr  SExpr
	Line  string // file:line
}

type LoopSpec struct {
	Invariants []Clause
	Steps      []Clause // two-state conditions checked at every back edge; prev(e) = value at loop head
	Entries    []Clause // conditions checked where the loop is entered (not on back edges, never assumed)
	Decreases  *Clause
}

type FuncContract struct {
	Key       string // e.g. parse.(*lexer).next
	Requires  []Clause
	Ensures   []Clause
	Asserts   []Clause // checked at every return of the body (may mention locals); never assumed by callers
	Assumes   []Clause // assumed at entry of the body without being a caller obligation (listed in the evidence)
	At        map[string][]Clause // assertions at call sites, keyed by the normalised source text of the call
	After     map[string][]Clause // assertions right after a call (results bound)
	AtOpt     map[string]bool     // at-clauses whose call need not occur (at?)
	Never     map[string]string   // call-text prefixes that must not occur (value: label)
	Propagates bool               // every error returned by a callee must make this function return an error
	OwnErrors  bool               // false by default; set by "noownerrors": every error this function returns is one a callee returned
	NoProp    []string            // call texts (prefixes) whose error is deliberately discarded
	Trusts    []Clause // postconditions assumed by callers but NOT checked against the body (listed as assumptions)
	PostDefs  []Clause // spec-function definitions instantiated at the results (assumed at every return)
	Decreases *Clause
	Loops     map[int]*LoopSpec
	InLoops   map[string]*LoopSpec // "calleeKey:N": extra clauses for loop N of a callee inlined into this function
	Inline    bool
	Trusted   bool     // contract assumed, body not verified
	Pure      bool     // writes nothing (checked like any frame)
	Modifies  []string // heap keys or "*"; nil = computed automatically
	HasMod    bool
	NoSweep   bool // do not generate safety obligations (function outside sweep)
	Implements string // key of a functype contract whose clauses this function inherits
	Reveal     map[string]bool // opaque predicates expanded in this function
	Inlines    map[string]bool // callees expanded at their call sites inside this function only
	FreshResult bool           // some ensures clause says fresh(result): the function returns a new object
	Opaque    []string
	File      string
	Used      bool
}

type PredDef struct {
	Opaque bool
	Name   string
	Params []string // names
	Types  []string // go type strings
	Body   SExpr
	Src    string
	Pkg    string
}

type SpecFunc struct {
	Name    string
	Params  []string // sort names: int,bool,string,real,val,slice,ref
	Result  string
	SMTBody string // optional "define-fun" body with parameters p0..pn
}

type Axiom struct {
	Name string
	Src  string
	Expr SExpr
	Pkg  string
	Lemma bool
}

type GhostField struct {
	Type  string // pkg.Type
	Field string
	Sort  string // int, bool, string
}

type Contracts struct {
	Funcs  map[string]*FuncContract
	Preds  map[string]*PredDef
	Specs  map[string]*SpecFunc
	Axioms []*Axiom
	Ghosts []*GhostField
	Files  []string
	Assumes []string
	FieldInv map[string]bool // "pkg.Type.field": the field is never nil in an allocated object
	ArrayInv map[string]bool // array heap key suffix (element type): elements are never nil
	MapInv   map[string]bool // "pkg|map type": values are never nil
	FieldFrame  map[string][]string // "pkg.Type[.field]": the only functions that may store to such fields of objects they did not allocate
	GlobalFrame map[string][]string // package: the only functions that may store to its package-level variables
	NoCaptureWrite map[string]bool // closures that must not assign captured variables
	MapFrame map[string][]string // "pkg|map type": the only functions that may write maps of that type they did not allocate
}

func newContracts() *Contracts {
	return &Contracts{Funcs: map[string]*FuncContract{}, Preds: map[string]*PredDef{}, Specs: map[string]*SpecFunc{}, FieldInv: map[string]bool{}, ArrayInv: map[string]bool{}, MapInv: map[string]bool{}}
}

func splitLabel(s string) (label, rest string) {
	// label is ident followed by ':' (not '::')
	i := 0
	for i < len(s) && (unicode.IsLetter(rune(s[i])) || unicode.IsDigit(rune(s[i])) || s[i] == '_' || s[i] == '.' || s[i] == '-') {
		i++
	}
	if i > 0 && i < len(s) && s[i] == ':' && (i+1 >= len(s) || s[i+1] != ':') {
		return s[:i], strings.TrimSpace(s[i+1:])
	}
	return "", s
}

func (c *Contracts) loadFile(path string, pkgName string) error {
	data, err := os.ReadFile(path)
	if err != nil {
		return err
	}
	c.Files = append(c.Files, path)
	var cur *FuncContract
	lines := strings.Split(string(data), "\n")
	// join continuation lines: "//@ ..." followed by "//@+ ..."
	var joined []struct {
		text string
		line int
	}
	for i, ln := range lines {
		t := strings.TrimSpace(ln)
		if strings.HasPrefix(t, "//@+") {
			if len(joined) > 0 {
				joined[len(joined)-1].text += " " + strings.TrimSpace(t[4:])
			}
			continue
		}
		if strings.HasPrefix(t, "//@") {
			joined = append(joined, struct {
				text string
				line int
			}{strings.TrimSpace(t[3:]), i + 1})
		}
	}
	mkClause := func(src string, line int) (Clause, error) {
		label, rest := splitLabel(src)
		e, err := parseSpecExpr(rest)
		if err != nil {
			return Clause{}, fmt.Errorf("%s:%d: %v", path, line, err)
		}
		return Clause{Label: label, Src: rest, Expr: e, Line: fmt.Sprintf("%s:%d", path, line)}, nil
	}
	for _, j := range joined {
		t := j.text
		if t == "" || strings.HasPrefix(t, "#") {
			continue
		}
		word, rest := t, ""
		if i := strings.IndexAny(t, " \t"); i >= 0 {
			word, rest = t[:i], strings.TrimSpace(t[i+1:])
		}
		strictAsserts := false
		if strings.HasPrefix(word, "asserts!") {
			// asserts! : at a return where a local of the clause does not exist, the return must be an error return
			strictAsserts = true
			word = "asserts" + word[len("asserts!"):]
		}
		if strings.HasPrefix(word, "asserts@") {
			rest = word[len("asserts"):] + " " + rest
			word = "asserts"
		}
		switch word {
		case "func":
			key := rest
			if _, dup := c.Funcs[key]; dup {
				return fmt.Errorf("%s:%d: duplicate contract for %s", path, j.line, key)
			}
			cur = &FuncContract{Key: key, Loops: map[int]*LoopSpec{}, File: path}
			c.Funcs[key] = cur
		case "def":
			if cur == nil {
				return fmt.Errorf("%s:%d: def outside func", path, j.line)
			}
			cl, err := mkClause(rest, j.line)
			if err != nil {
				return err
			}
			if regexp.MustCompile(`\bresult\b|\br[0-9]\b`).MatchString(rest) {
				cur.PostDefs = append(cur.PostDefs, cl)
			} else {
				cur.Assumes = append(cur.Assumes, cl)
			}
		case "assume":
			if cur == nil {
				c.Assumes = append(c.Assumes, fmt.Sprintf("%s:%d: %s", path, j.line, rest))
				continue
			}
			cl, err := mkClause(rest, j.line)
			if err != nil {
				return err
			}
			cur.Assumes = append(cur.Assumes, cl)
			c.Assumes = append(c.Assumes, fmt.Sprintf("%s: %s", cur.Key, rest))
		case "trusts":
			if cur == nil {
				return fmt.Errorf("%s:%d: trusts outside func", path, j.line)
			}
			cl, err := mkClause(rest, j.line)
			if err != nil {
				return err
			}
			cur.Trusts = append(cur.Trusts, cl)
			c.Assumes = append(c.Assumes, fmt.Sprintf("%s (trusted postcondition): %s", cur.Key, rest))
		case "at", "after", "at?":
			// at "<call text>" label: expr      (checked just before the call)
			// after "<call text>" label: expr   (checked just after it; result / r0, r1.. are the call's results)
			if cur == nil || !strings.HasPrefix(rest, "\"") {
				return fmt.Errorf("%s:%d: at \"call text\" label: expr", path, j.line)
			}
			q := -1
			for i := 1; i < len(rest); i++ {
				if rest[i] == '"' && rest[i-1] != '\\' {
					q = i - 1
					break
				}
			}
			if q < 0 {
				return fmt.Errorf("%s:%d: unterminated call text", path, j.line)
			}
			key := strings.Join(strings.Fields(strings.ReplaceAll(rest[1:1+q], "\\\"", "\"")), "")
			cl, err := mkClause(strings.TrimSpace(rest[q+2:]), j.line)
			if err != nil {
				return err
			}
			if word == "at?" {
				// optional: checked wherever the call occurs, but the call need not occur
				if cur.AtOpt == nil {
					cur.AtOpt = map[string]bool{}
				}
				cur.AtOpt[key] = true
			}
			if word == "after" {
				if cur.After == nil {
					cur.After = map[string][]Clause{}
				}
				cur.After[key] = append(cur.After[key], cl)
				continue
			}
			if cur.At == nil {
				cur.At = map[string][]Clause{}
			}
			cur.At[key] = append(cur.At[key], cl)
		case "noownerrors":
			// the function raises no error of its own: a non-nil error result is the error result of one of its calls
			cur.OwnErrors = true
		case "propagates":
			cur.Propagates = true
			for _, x := range strings.Split(rest, ",") {
				if x = strings.Join(strings.Fields(x), ""); x != "" && x != "except" {
					cur.NoProp = append(cur.NoProp, strings.TrimPrefix(x, "except"))
				}
			}
		case "requires", "ensures", "decreases", "asserts":
			if cur == nil {
				return fmt.Errorf("%s:%d: clause outside func", path, j.line)
			}
			caseText := ""
			if word == "asserts" && strings.HasPrefix(rest, "@") {
				// asserts @<case text> label: expr   (the case text has no blanks)
				sp := strings.IndexAny(rest, " \t")
				if sp < 0 {
					return fmt.Errorf("%s:%d: bad asserts@", path, j.line)
				}
				caseText = rest[1:sp]
				rest = strings.TrimSpace(rest[sp+1:])
			}
			cl, err := mkClause(rest, j.line)
			if err != nil {
				return err
			}
			cl.Case = caseText
			cl.Strict = strictAsserts
			switch word {
			case "requires":
				cur.Requires = append(cur.Requires, cl)
			case "ensures":
				cur.Ensures = append(cur.Ensures, cl)
				if strings.Contains(rest, "fresh(result)") {
					cur.FreshResult = true
				}
			case "asserts":
				cur.Asserts = append(cur.Asserts, cl)
			case "decreases":
				cur.Decreases = &cl
			}
		case "loop":
			if cur == nil {
				return fmt.Errorf("%s:%d: loop outside func", path, j.line)
			}
			parts := strings.SplitN(rest, " ", 3)
			if len(parts) < 3 {
				return fmt.Errorf("%s:%d: bad loop clause", path, j.line)
			}
			var ls *LoopSpec
			if ci := strings.LastIndex(parts[0], ":"); ci > 0 {
				// loop <calleeKey>:<n> ... — clauses for a loop of a callee that is inlined here
				if cur.InLoops == nil {
					cur.InLoops = map[string]*LoopSpec{}
				}
				ls = cur.InLoops[parts[0]]
				if ls == nil {
					ls = &LoopSpec{}
					cur.InLoops[parts[0]] = ls
				}
			} else {
				n, err := strconv.Atoi(parts[0])
				if err != nil {
					return fmt.Errorf("%s:%d: bad loop ordinal", path, j.line)
				}
				ls = cur.Loops[n]
				if ls == nil {
					ls = &LoopSpec{}
					cur.Loops[n] = ls
				}
			}
			cl, err := mkClause(strings.TrimSpace(parts[2]), j.line)
			if err != nil {
				return err
			}
			switch parts[1] {
			case "invariant":
				ls.Invariants = append(ls.Invariants, cl)
			case "decreases":
				ls.Decreases = &cl
			case "step":
				ls.Steps = append(ls.Steps, cl)
			case "entry":
				ls.Entries = append(ls.Entries, cl)
			default:
				return fmt.Errorf("%s:%d: bad loop clause kind %s", path, j.line, parts[1])
			}
		case "inline":
			cur.Inline = true
		case "trusted":
			cur.Trusted = true
		case "pure":
			cur.Pure = true
			cur.HasMod = true
		case "nosweep":
			cur.NoSweep = true
		case "implements":
			cur.Implements = rest
		case "inlines":
			if cur.Inlines == nil {
				cur.Inlines = map[string]bool{}
			}
			for _, r := range strings.Split(rest, ",") {
				cur.Inlines[strings.TrimSpace(r)] = true
			}
		case "reveal":
			if cur.Reveal == nil {
				cur.Reveal = map[string]bool{}
			}
			for _, r := range strings.Split(rest, ",") {
				cur.Reveal[strings.TrimSpace(r)] = true
			}
		case "opaque":
			// opaque pred name(...) = body
			if !strings.HasPrefix(rest, "pred ") {
				return fmt.Errorf("%s:%d: opaque must be followed by pred", path, j.line)
			}
			if err := c.parsePred(strings.TrimSpace(rest[5:]), pkgName, path, j.line, true); err != nil {
				return err
			}
			cur = nil
		case "modifies":
			cur.HasMod = true
			for _, m := range strings.Split(rest, ",") {
				m = strings.TrimSpace(m)
				if m != "" {
					cur.Modifies = append(cur.Modifies, m)
				}
			}
		case "pred":
			if err := c.parsePred(rest, pkgName, path, j.line, false); err != nil {
				return err
			}
			cur = nil
		case "spec":
			// spec name(sort, sort) sort [= smt-body using p0 p1 ...]
			par := strings.Index(rest, "(")
			cp := strings.Index(rest, ")")
			if par < 0 || cp < 0 {
				return fmt.Errorf("%s:%d: bad spec", path, j.line)
			}
			sf := &SpecFunc{Name: strings.TrimSpace(rest[:par])}
			for _, prm := range strings.Split(rest[par+1:cp], ",") {
				prm = strings.TrimSpace(prm)
				if prm != "" {
					sf.Params = append(sf.Params, prm)
				}
			}
			tail := strings.TrimSpace(rest[cp+1:])
			if i := strings.Index(tail, "="); i >= 0 {
				sf.Result = strings.TrimSpace(tail[:i])
				sf.SMTBody = strings.TrimSpace(tail[i+1:])
			} else {
				sf.Result = tail
			}
			c.Specs[sf.Name] = sf
			cur = nil
		case "axiom", "lemma":
			label, body := splitLabel(rest)
			e, err := parseSpecExpr(body)
			if err != nil {
				return fmt.Errorf("%s:%d: %v", path, j.line, err)
			}
			c.Axioms = append(c.Axioms, &Axiom{Name: label, Src: body, Expr: e, Pkg: pkgName, Lemma: word == "lemma"})
			cur = nil
		case "ghost":
			f := strings.Fields(rest)
			if len(f) != 3 {
				return fmt.Errorf("%s:%d: ghost Type field sort", path, j.line)
			}
			c.Ghosts = append(c.Ghosts, &GhostField{f[0], f[1], f[2]})
			cur = nil
		case "fieldframe":
			// fieldframe <pkg.Type>[.<field>] only <func key or prefix*>, ...: every other function stores to such a
			// field only in an object it allocated itself
			i := strings.Index(rest, " only")
			if i < 0 {
				return fmt.Errorf("%s:%d: fieldframe <pkg.Type[.field]> only <func>, ...", path, j.line)
			}
			var fs []string
			for _, x := range strings.Split(strings.TrimPrefix(rest[i+5:], " "), ",") {
				if x = strings.TrimSpace(x); x != "" {
					fs = append(fs, x)
				}
			}
			if c.FieldFrame == nil {
				c.FieldFrame = map[string][]string{}
			}
			c.FieldFrame[strings.TrimSpace(rest[:i])] = fs
			cur = nil
		case "globalframe":
			// globalframe only <func>, ...: package-level variables are written by these functions only
			var fs []string
			for _, x := range strings.Split(strings.TrimPrefix(strings.TrimSpace(rest), "only"), ",") {
				if x = strings.TrimSpace(x); x != "" {
					fs = append(fs, x)
				}
			}
			if c.GlobalFrame == nil {
				c.GlobalFrame = map[string][]string{}
			}
			c.GlobalFrame[pkgName] = fs
			cur = nil
		case "never":
			// never "<call text prefix>" label: no call whose source text starts with the prefix may occur in the
			// function, other than calls named by an at / at? / after clause of the same contract
			if cur == nil || !strings.HasPrefix(rest, "\"") {
				return fmt.Errorf("%s:%d: never \"call text prefix\" label", path, j.line)
			}
			q := strings.Index(rest[1:], "\"")
			if q < 0 {
				return fmt.Errorf("%s:%d: unterminated call text", path, j.line)
			}
			if cur.Never == nil {
				cur.Never = map[string]string{}
			}
			cur.Never[strings.Join(strings.Fields(rest[1:1+q]), "")] = strings.TrimSpace(rest[q+2:])
		case "nocapturewrite":
			// nocapturewrite <closure key>: a closure that outlives the call that created it (a registered callback):
			// it must not assign to a variable it captured (state shared between its invocations)
			if c.NoCaptureWrite == nil {
				c.NoCaptureWrite = map[string]bool{}
			}
			c.NoCaptureWrite[strings.TrimSpace(rest)] = true
			cur = nil
		case "mapframe":
			// mapframe <map type> only <func key>, <func key>...: every other function writes such a map only if it
			// allocated the map itself (frame obligation at every map update)
			i := strings.Index(rest+" ", " only ")
			if i < 0 {
				return fmt.Errorf("%s:%d: mapframe <map type> only <func>, ...", path, j.line)
			}
			var fs []string
			for _, x := range strings.Split(strings.TrimPrefix((rest + " ")[i+5:], " "), ",") {
				if x = strings.TrimSpace(x); x != "" {
					fs = append(fs, x)
				}
			}
			if c.MapFrame == nil {
				c.MapFrame = map[string][]string{}
			}
			c.MapFrame[pkgName+"|"+strings.TrimSpace(rest[:i])] = fs
			cur = nil
		case "mapinv":
			f := strings.Fields(rest)
			if len(f) != 2 || f[1] != "nonnil" {
				return fmt.Errorf("%s:%d: mapinv <map type> nonnil", path, j.line)
			}
			c.MapInv[pkgName+"|"+f[0]] = true
			cur = nil
		case "arrayinv":
			f := strings.Fields(rest)
			if len(f) != 2 || f[1] != "nonnil" {
				return fmt.Errorf("%s:%d: arrayinv <element type> nonnil", path, j.line)
			}
			c.ArrayInv[pkgName+"|"+f[0]] = true
			cur = nil
		case "fieldinv":
			f := strings.Fields(rest)
			if len(f) != 2 || f[1] != "nonnil" {
				return fmt.Errorf("%s:%d: fieldinv <pkg.Type.field> nonnil", path, j.line)
			}
			c.FieldInv[f[0]] = true
			cur = nil
		default:
			return fmt.Errorf("%s:%d: unknown contract directive %q", path, j.line, word)
		}
	}
	return nil
}

func (c *Contracts) parsePred(rest, pkgName, path string, line int, opaque bool) error {
	par := strings.Index(rest, "(")
	cp := strings.Index(rest, ")")
	if par < 0 || cp < 0 {
		return fmt.Errorf("%s:%d: bad pred", path, line)
	}
	name := strings.TrimSpace(rest[:par])
	pd := &PredDef{Name: name, Pkg: pkgName, Opaque: opaque}
	for _, prm := range strings.Split(rest[par+1:cp], ",") {
		prm = strings.TrimSpace(prm)
		if prm == "" {
			continue
		}
		f := strings.SplitN(prm, " ", 2)
		if len(f) != 2 {
			return fmt.Errorf("%s:%d: bad pred param %q", path, line, prm)
		}
		pd.Params = append(pd.Params, f[0])
		pd.Types = append(pd.Types, strings.TrimSpace(f[1]))
	}
	k := strings.Index(rest[cp+1:], "=")
	if k < 0 {
		return fmt.Errorf("%s:%d: pred without body", path, line)
	}
	pd.Src = strings.TrimSpace(rest[cp+1+k+1:])
	e, err := parseSpecExpr(pd.Src)
	if err != nil {
		return fmt.Errorf("%s:%d: %v", path, line, err)
	}
	pd.Body = e
	c.Preds[name] = pd
	return nil
}
