package main

// Replay: a failed obligation's model is turned into concrete inputs for the real code, run
// through `go test -overlay` (nothing is written into /repo).

import (
	"encoding/json"
	"fmt"
	"os"
	"os/exec"
	"path/filepath"
	"regexp"
	"sort"
	"strconv"
	"strings"
	"time"
)

type replayFamily struct {
	pkgDir  string // package directory relative to repo
	harness string // file under /verif/harness
	test    string
}

var replayFamilies = map[string]replayFamily{
	"escape": {"twig/escape", "escape_test.go", "TestStickvcReplayEscape"},
	"parse":  {"parse", "parse_test.go", "TestStickvcReplayParse"},
	"value":  {".", "value_test.go", "TestStickvcReplayValue"},
	"attr":   {".", "attr_test.go", "TestStickvcReplayAttr"},
	"exec":   {"twig", "exec_test.go", "TestStickvcReplayExec"},
	"leak":   {".", "leak_test.go", "TestStickvcReplayLeak"},
	"pos":    {"parse", "pos_test.go", "TestStickvcReplayPos"},
	"render": {"twig", "render_test.go", "TestStickvcReplayRender"},
	"race":   {"twig", "race_test.go", "TestStickvcReplayRace"},
}

type ReplayFile struct {
	Property   string            `json:"property"`
	Obligation string            `json:"obligation"`
	Function   string            `json:"function"`
	Kind       string            `json:"kind"`
	Pos        string            `json:"pos"`
	Statement  string            `json:"statement"`
	Status     string            `json:"solver_status"`
	Solver     string            `json:"solver"`
	Output     string            `json:"solver_output"`
	Model      map[string]string `json:"model_inputs,omitempty"`
	Family     string            `json:"replay_family,omitempty"`
	Candidates []int             `json:"candidates,omitempty"`
	Env        map[string]string `json:"env,omitempty"`
	Outcome    string            `json:"outcome"` // confirmed | not-reproduced | no-model
	TestOutput string            `json:"test_output,omitempty"`
	Note       string            `json:"note,omitempty"`
}

var intConst = regexp.MustCompile(`\(define-fun\s+(\S+)\s+\(\)\s+Int\s+(\(-\s*)?(\d+)\)?\)`)

func modelInts(out string) []int {
	seen := map[int]bool{}
	var vals []int
	text := strings.Join(strings.Fields(out), " ")
	for _, m := range intConst.FindAllStringSubmatch(text, -1) {
		if m[2] != "" {
			continue
		}
		n, err := strconv.Atoi(m[3])
		if err != nil || seen[n] {
			continue
		}
		seen[n] = true
		vals = append(vals, n)
	}
	sort.Ints(vals)
	return vals
}

func writeReplay(e *Engine, pc *PropConfig, o *Obligation, header *Universe, dir string) (string, bool) {
	os.MkdirAll(dir, 0o755)
	path := filepath.Join(dir, sanitize(o.Name)+".json")
	rf := &ReplayFile{Property: pc.ID, Obligation: o.Name, Function: o.Func, Kind: o.Kind, Pos: o.Pos, Statement: o.Desc,
		Status: o.Status, Solver: o.Solver, Output: truncate(o.Output, 1500), Family: pc.Replay}
	if o.Status == "sat" {
		m := parseModelScalars(o.Output)
		rf.Model = map[string]string{}
		for lbl, term := range o.Inputs {
			if v, ok := m[term]; ok {
				rf.Model[lbl] = v
			}
		}
	} else {
		rf.Note = "undecided: solver gave no model (status " + o.Status + ")"
	}
	confirmed := false
	if fam, ok := replayFamilies[pc.Replay]; ok {
		var cands []int
		if o.Status == "sat" {
			for _, v := range modelInts(o.Output) {
				if v <= 0x10FFFF {
					cands = append(cands, v)
				}
			}
		}
		if len(cands) > 200 {
			cands = cands[:200]
		}
		// boundary values always tried
		cands = append(cands, 0, 33, 38, 39, 43, 65, 127, 128, 255, 0x7FF, 0x800, 0xFFFF, 0x10000, 0x1F600, 0x10FFFF)
		rf.Candidates = cands
		cb, _ := json.Marshal(cands)
		rf.Env = map[string]string{"STICKVC_CANDIDATES": string(cb), "STICKVC_SKIP": knownSkip(pc.ID)}
		if pc.Replay == "render" {
			rf.Env["STICKVC_PROP"] = pc.ID
		}
		if pc.Replay == "exec" || pc.Replay == "leak" || pc.Replay == "pos" {
			wb, _ := json.Marshal(pc.Witnesses)
			rf.Env["STICKVC_INPUTS"] = string(wb)
		}
		if pc.Replay == "parse" {
			os.MkdirAll(dir, 0o755)
			rf.Env["STICKVC_LAST"] = filepath.Join(dir, "last_input.txt")
			wb, _ := json.Marshal(pc.Witnesses)
			rf.Env["STICKVC_INPUTS"] = string(wb)
		}
		ck := pc.Replay + "|" + rf.Env["STICKVC_CANDIDATES"]
		if pc.Replay != "escape" {
			ck = pc.Replay // one run per check
		}
		cached, have := harnessCache[ck]
		if !have {
			o2, f2 := runHarness(fam, rf.Env)
			cached = harnessResult{o2, f2}
			harnessCache[ck] = cached
		}
		out, failed := cached.out, cached.failed
		if failed && !strings.Contains(out, "REPLAY-FAIL") && pc.Replay == "parse" {
			// the test binary died: a panic in the tokeniser goroutine; the last input written identifies it
			if lb, err := os.ReadFile(rf.Env["STICKVC_LAST"]); err == nil && strings.Contains(out, "panic:") {
				out = fmt.Sprintf("REPLAY-FAIL class=parse/panic input=%q (process crashed: unrecoverable panic in the tokeniser goroutine)\n", string(lb)) + out
			}
		}
		if failed && !strings.Contains(out, "REPLAY-FAIL") && strings.Contains(out, "fatal error:") {
			// the test binary died (stack overflow, unrecoverable panic): the last case announced identifies the input
			last := ""
			for _, ln := range strings.Split(out, "\n") {
				if strings.HasPrefix(ln, "REPLAY-CASE ") {
					last = strings.TrimPrefix(ln, "REPLAY-CASE ")
				}
			}
			if last != "" {
				why := "process crashed"
				if i := strings.Index(out, "fatal error:"); i >= 0 {
					why = strings.SplitN(out[i:], "\n", 2)[0]
				}
				out = "REPLAY-FAIL " + last + " (" + why + ")\n" + out
			}
		}
		rf.TestOutput = truncate(firstFailLines(out, 12), 3000)
		if failed && !strings.Contains(out, "REPLAY-FAIL") && strings.Contains(out, "WARNING: DATA RACE") {
			out = "REPLAY-FAIL class=race/detector the race detector reports a data race inside the library during concurrent Execute/Parse on one environment\n" + out
		}
		if failed && strings.Contains(out, "REPLAY-FAIL") {
			confirmed = true
			rf.Outcome = "confirmed"
		} else {
			rf.Outcome = "not-reproduced"
		}
	} else {
		rf.Outcome = "no-model"
		if o.Status == "sat" {
			rf.Outcome = "not-reproduced"
			rf.Note = "no replay harness for this obligation family; the model is recorded above"
		}
	}
	jb, _ := json.MarshalIndent(rf, "", " ")
	os.WriteFile(path, jb, 0o644)
	return path, confirmed
}

// knownSkip lists replay classes that belong to open known findings (not to be re-reported).
func knownSkip(prop string) string {
	var ks []string
	for _, f := range loadFindings() {
		if f.Property == prop && f.Status == "open" && strings.HasPrefix(f.Witness, "class=") {
			ks = append(ks, strings.Fields(strings.TrimPrefix(f.Witness, "class="))[0])
		}
	}
	return strings.Join(ks, ",")
}

func truncate(s string, n int) string {
	if len(s) > n {
		return s[:n] + "…"
	}
	return s
}

// runHarness runs an in-package test injected by overlay.
func runHarness(fam replayFamily, env map[string]string) (string, bool) {
	wd := getWorkDir()
	ov := map[string]map[string]string{"Replace": {
		filepath.Join(repoDir, fam.pkgDir, "zz_stickvc_replay_test.go"): filepath.Join(verifDir, "harness", fam.harness),
	}}
	ob, _ := json.Marshal(ov)
	ovPath := filepath.Join(wd, fmt.Sprintf("ov_%d.json", time.Now().UnixNano()))
	os.WriteFile(ovPath, ob, 0o644)
	defer os.Remove(ovPath)
	args := []string{"test", "-overlay", ovPath, "-vet=off", "-count=1", "-timeout", "120s", "-run", "^" + fam.test + "$", "./" + fam.pkgDir}
	if fam.test == "TestStickvcReplayRace" {
		// with the race detector (the result comparison in the harness works without it, should it be unavailable)
		args = append([]string{"test", "-race"}, args[1:]...)
	}
	cmd := exec.Command("go", args...)
	cmd.Dir = repoDir
	cmd.Env = append(os.Environ(), "GOFLAGS=-mod=mod", "GOPROXY=off", "GOSUMDB=off", "GOTOOLCHAIN=local")
	for k, v := range env {
		cmd.Env = append(cmd.Env, k+"="+v)
	}
	out, err := cmd.CombinedOutput()
	return string(out), err != nil
}

// runBounded runs a bounded stand-in test from the harness directory.
func runBounded(bs BoundedSpec, tier string) (bool, string) {
	fam := replayFamily{pkgDir: bs.Pkg, harness: bs.Test + "_test.go", test: bs.Test}
	out, failed := runHarness(fam, map[string]string{"STICKVC_TIER": tier})
	return !failed, out
}

// cmdReplay re-runs a stored replay file.
func cmdReplay(path string) int {
	b, err := os.ReadFile(path)
	if err != nil {
		fmt.Fprintln(os.Stderr, err)
		return 2
	}
	var rf ReplayFile
	if err := json.Unmarshal(b, &rf); err != nil {
		fmt.Fprintln(os.Stderr, err)
		return 2
	}
	fmt.Printf("obligation: %s\nstatement: %s\nsolver: %s (%s)\noutcome when recorded: %s\n", rf.Obligation, rf.Statement, rf.Status, rf.Solver, rf.Outcome)
	fam, ok := replayFamilies[rf.Family]
	if !ok || rf.Env == nil {
		fmt.Println("no concrete replay recorded for this obligation;", rf.Note)
		return 0
	}
	out, failed := runHarness(fam, rf.Env)
	fmt.Println(out)
	if failed {
		return 1
	}
	return 0
}

func firstFailLines(out string, n int) string {
	var keep []string
	fails := 0
	for _, ln := range strings.Split(out, "\n") {
		if strings.HasPrefix(ln, "REPLAY-FAIL") {
			fails++
			if fails > n {
				continue
			}
		}
		keep = append(keep, ln)
	}
	if fails > n {
		keep = append(keep, fmt.Sprintf("(%d more REPLAY-FAIL lines omitted)", fails-n))
	}
	return strings.Join(keep, "\n")
}

type harnessResult struct {
	out    string
	failed bool
}

var harnessCache = map[string]harnessResult{}
