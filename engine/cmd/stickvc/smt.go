package main

// SMT layer: sorts, script accumulation, solver portfolio, model parsing.

import (
	"bytes"
	"context"
	"fmt"
	"os"
	"os/exec"
	"path/filepath"
	"regexp"
	"sort"
	"strconv"
	"strings"
	"sync"
	"time"
)

// Fixed prelude: string views, slices, interface values.
const smtPrelude = `
(declare-datatypes ((Str 0)) (((mkstr (sbase (Array Int Int)) (slo Int) (shi Int)))))
(define-fun slen ((s Str)) Int (- (shi s) (slo s)))
(define-fun sat ((s Str) (i Int)) Int (select (sbase s) (+ (slo s) i)))
(define-fun ssub ((s Str) (a Int) (b Int)) Str (mkstr (sbase s) (+ (slo s) a) (+ (slo s) b)))
(declare-datatypes ((Slice 0)) (((mkslice (sref Int) (soff Int) (sllen Int)))))
(declare-datatypes ((Val 0)) (((mkval (vtag Int) (vpay Int)))))
(define-fun nilval () Val (mkval 0 0))
(define-fun nilslice () Slice (mkslice 0 0 0))
(declare-fun skey (Str) Int)
(define-fun streq ((a Str) (b Str)) Bool (= (skey a) (skey b)))
(declare-fun sconcat (Str Str) Str)
(define-fun b2i ((b Bool)) Int (ite b 1 0))
(declare-fun sidx (Int Int) Int)
(assert (forall ((a Int) (b Int)) (! (= (sidx a b) (+ a b)) :pattern ((sidx a b)))))
`

// Script is an append-only list of SMT commands; obligations remember a prefix length.
type Script struct {
	lines []string
	tags  []int // per line: index of the basic block (of the verification unit) that emitted it, -1 = global
	cur   int   // current tag
	n     int   // fresh-name counter
}

func (s *Script) add(format string, a ...interface{}) {
	s.lines = append(s.lines, fmt.Sprintf(format, a...))
	s.tags = append(s.tags, s.cur)
}

func (s *Script) fresh(prefix string) string {
	s.n++
	return fmt.Sprintf("%s!%d", sanitize(prefix), s.n)
}

var sanRe = regexp.MustCompile(`[^A-Za-z0-9_.]`)

func sanitize(s string) string {
	return sanRe.ReplaceAllString(s, "_")
}

// declare a fresh unconstrained constant.
func (s *Script) declare(prefix, sort string) string {
	n := s.fresh(prefix)
	s.add("(declare-fun %s () %s)", n, sort)
	return n
}

// define a named term (macro); keeps textual size linear.
func (s *Script) define(prefix, sort, term string) string {
	// do not re-wrap atoms
	if isAtom(term) {
		return term
	}
	n := s.fresh(prefix)
	s.add("(define-fun %s () %s %s)", n, sort, term)
	return n
}

// defineConst introduces a declared constant constrained to equal the term (usable inside E-matching
// patterns, unlike a macro whose expansion contains ite/and/not).
func (s *Script) defineConst(prefix, sort, term string) string {
	if isAtom(term) {
		return term
	}
	n := s.fresh(prefix)
	s.add("(declare-fun %s () %s)", n, sort)
	s.add("(assert (= %s %s))", n, term)
	return n
}

func (s *Script) assume(term string) {
	if term == "true" {
		return
	}
	s.add("(assert %s)", term)
}

func isAtom(t string) bool {
	if t == "" {
		return true
	}
	return !strings.ContainsAny(t, " ()")
}

func smtInt(n int64) string {
	if n < 0 {
		return fmt.Sprintf("(- %d)", -n)
	}
	return strconv.FormatInt(n, 10)
}

func and(ts ...string) string {
	var out []string
	for _, t := range ts {
		if t == "true" || t == "" {
			continue
		}
		if t == "false" {
			return "false"
		}
		out = append(out, t)
	}
	switch len(out) {
	case 0:
		return "true"
	case 1:
		return out[0]
	}
	return "(and " + strings.Join(out, " ") + ")"
}

func or(ts ...string) string {
	var out []string
	for _, t := range ts {
		if t == "false" || t == "" {
			continue
		}
		if t == "true" {
			return "true"
		}
		out = append(out, t)
	}
	switch len(out) {
	case 0:
		return "false"
	case 1:
		return out[0]
	}
	return "(or " + strings.Join(out, " ") + ")"
}

func not(t string) string {
	switch t {
	case "true":
		return "false"
	case "false":
		return "true"
	}
	return "(not " + t + ")"
}

func implies(a, b string) string {
	if a == "true" {
		return b
	}
	if b == "true" || a == "false" {
		return "true"
	}
	return "(=> " + a + " " + b + ")"
}

func ite(c, a, b string) string {
	if c == "true" || a == b {
		return a
	}
	if c == "false" {
		return b
	}
	return "(ite " + c + " " + a + " " + b + ")"
}

func eq(a, b string) string {
	if a == b {
		return "true"
	}
	return "(= " + a + " " + b + ")"
}

func app(f string, args ...string) string {
	if len(args) == 0 {
		return f
	}
	return "(" + f + " " + strings.Join(args, " ") + ")"
}

// ---------------------------------------------------------------------------
// Solvers

type SolverResult struct {
	Status  string // "unsat", "sat", "unknown", "timeout", "error"
	Solver  string
	Seconds float64
	Output  string // raw (model if sat)
}

type solverSpec struct {
	name string
	args func(timeoutMs int, file string) []string
}

var solvers = []solverSpec{
	{"z3-new", func(t int, f string) []string { return []string{"z3-new", fmt.Sprintf("-t:%d", t), f} }},
	{"z3", func(t int, f string) []string { return []string{"z3", fmt.Sprintf("-t:%d", t), f} }},
	{"cvc5", func(t int, f string) []string {
		return []string{"cvc5", fmt.Sprintf("--tlimit=%d", t), "--produce-models", f}
	}},
}

var (
	workDir     string
	workDirOnce sync.Once
)

func getWorkDir() string {
	workDirOnce.Do(func() {
		base := os.Getenv("STICKVC_WORK")
		if base == "" {
			base = os.TempDir()
		}
		d, err := os.MkdirTemp(base, "stickvc-")
		if err != nil {
			panic(err)
		}
		workDir = d
	})
	return workDir
}

func cleanupWorkDir() {
	if workDir != "" {
		os.RemoveAll(workDir)
	}
}

// runSolver runs a single solver on a query text.
func runSolver(sp solverSpec, query string, file string, timeout time.Duration, ctx context.Context) SolverResult {
	q := query
	if sp.name == "cvc5" {
		q = "(set-logic ALL)\n" + query
	}
	fn := file + "." + sp.name + ".smt2"
	if err := os.WriteFile(fn, []byte(q), 0o644); err != nil {
		return SolverResult{Status: "error", Solver: sp.name, Output: err.Error()}
	}
	defer os.Remove(fn)
	args := sp.args(int(timeout/time.Millisecond), fn)
	cctx, cancel := context.WithTimeout(ctx, timeout+2*time.Second)
	defer cancel()
	cmd := exec.CommandContext(cctx, args[0], args[1:]...)
	var out bytes.Buffer
	cmd.Stdout = &out
	cmd.Stderr = &out
	t0 := time.Now()
	_ = cmd.Run()
	el := time.Since(t0).Seconds()
	text := out.String()
	// the verdict is the first line that is not a solver warning (z3: "WARNING: ... cannot be used in patterns")
	first := ""
	for _, ln := range strings.Split(text, "\n") {
		ln = strings.TrimSpace(ln)
		if ln == "" || strings.HasPrefix(ln, "WARNING") {
			continue
		}
		first = ln
		break
	}
	st := "error"
	switch {
	case first == "unsat":
		st = "unsat"
	case first == "sat":
		st = "sat"
	case first == "unknown" || first == "timeout" || strings.HasPrefix(first, "cvc5 interrupted"):
		st = "unknown"
	case cctx.Err() != nil:
		st = "timeout"
	}
	return SolverResult{Status: st, Solver: sp.name, Seconds: el, Output: text}
}

// solve races the portfolio; first definite answer wins. If all=true, all solvers run and
// disagreement is reported as status "disagree".
func solve(query string, name string, timeout time.Duration, all bool) (SolverResult, []SolverResult) {
	file := filepath.Join(getWorkDir(), sanitize(name))
	if len(file) > 200 {
		file = file[:200]
	}
	file = fmt.Sprintf("%s_%d", file, time.Now().UnixNano()%1000000)
	ctx, cancel := context.WithCancel(context.Background())
	defer cancel()
	ch := make(chan SolverResult, len(solvers))
	for _, sp := range solvers {
		go func(sp solverSpec) { ch <- runSolver(sp, query, file, timeout, ctx) }(sp)
	}
	var results []SolverResult
	var best SolverResult
	have := false
	for range solvers {
		r := <-ch
		results = append(results, r)
		if r.Status == "unsat" || r.Status == "sat" {
			if !have {
				best = r
				have = true
				if !all {
					cancel()
					return best, results
				}
			} else if r.Status != best.Status {
				best = SolverResult{Status: "disagree", Solver: best.Solver + "/" + r.Solver,
					Output: best.Solver + " says " + best.Status + ", " + r.Solver + " says " + r.Status}
				return best, results
			}
		}
	}
	if have {
		return best, results
	}
	// no definite answer: report unknown with concatenated outputs
	var sb strings.Builder
	el := 0.0
	for _, r := range results {
		fmt.Fprintf(&sb, "[%s] %s: %s\n", r.Solver, r.Status, firstLines(r.Output, 3))
		if r.Seconds > el {
			el = r.Seconds
		}
	}
	return SolverResult{Status: "unknown", Solver: "all", Seconds: el, Output: sb.String()}, results
}

func firstLines(s string, n int) string {
	ls := strings.Split(strings.TrimSpace(s), "\n")
	if len(ls) > n {
		ls = ls[:n]
	}
	return strings.Join(ls, " | ")
}

// ---------------------------------------------------------------------------
// Model parsing (z3 style "(define-fun name () Sort value)"). Only scalars are extracted.

var modelRe = regexp.MustCompile(`\(define-fun\s+(\S+)\s+\(\)\s+(Int|Bool|Real)\s+([^\n]*?)\)\s*$`)

func parseModelScalars(out string) map[string]string {
	m := map[string]string{}
	// join lines of each define-fun
	text := strings.ReplaceAll(out, "\n   ", " ")
	text = strings.ReplaceAll(text, "\n    ", " ")
	for _, ln := range strings.Split(text, "\n") {
		ln = strings.TrimSpace(ln)
		if mm := modelRe.FindStringSubmatch(ln); mm != nil {
			v := strings.TrimSpace(mm[3])
			v = strings.ReplaceAll(v, "(- ", "-")
			v = strings.TrimRight(v, ")")
			m[strings.Trim(mm[1], "|")] = v
		}
	}
	return m
}

func sortedKeys(m map[string]string) []string {
	ks := make([]string, 0, len(m))
	for k := range m {
		ks = append(ks, k)
	}
	sort.Strings(ks)
	return ks
}

// runBatchSolver runs one incremental session; perCheck is the soft timeout of each check-sat.
func runBatchSolver(sp solverSpec, query string, file string, perCheck, total time.Duration, ctx context.Context) SolverResult {
	fn := file + "." + sp.name + ".smt2"
	if err := os.WriteFile(fn, []byte(query), 0o644); err != nil {
		return SolverResult{Status: "error", Solver: sp.name, Output: err.Error()}
	}
	defer os.Remove(fn)
	args := sp.args(int(perCheck/time.Millisecond), fn)
	cctx, cancel := context.WithTimeout(ctx, total)
	defer cancel()
	cmd := exec.CommandContext(cctx, args[0], args[1:]...)
	var out bytes.Buffer
	cmd.Stdout = &out
	cmd.Stderr = &out
	t0 := time.Now()
	_ = cmd.Run()
	return SolverResult{Status: "batch", Solver: sp.name, Seconds: time.Since(t0).Seconds(), Output: out.String()}
}
