package main

// VC generation: forward symbolic execution of go/ssa function bodies over the loop-cut CFG.
// Every assertion becomes one named obligation = script prefix + reach + negated condition.

import (
	"fmt"
	"go/ast"
	"go/constant"
	"go/token"
	"go/types"
	"regexp"
	"sort"
	"strings"

	"golang.org/x/tools/go/ast/astutil"
	"golang.org/x/tools/go/ssa"
)

type Obligation struct {
	Name   string // pkg.func#kind:anchor
	Func   string
	Kind   string // idx slice div nil assert-type make mapnil pre post inv dec frame lemma
	Anchor string
	Pos    string
	Prefix int    // number of script lines visible
	Reach  string // Bool term
	Cond   string // Bool term that must hold
	Desc   string
	script *Script
	Inputs map[string]string // model-relevant named inputs: label -> smt term
	// results
	Blk     int // block of the verification unit at which the obligation arises
	anc     map[int]bool // blocks from which Blk is reachable (assumptions of other blocks are vacuous)
	Status  string
	Cover   string
	Solver  string
	Seconds float64
	Output  string
}

type state struct {
	reach string
	heap  map[string]string
	alloc string
}

func (s *state) clone() *state {
	h := make(map[string]string, len(s.heap))
	for k, v := range s.heap {
		h[k] = v
	}
	return &state{reach: s.reach, heap: h, alloc: s.alloc}
}

type Loc struct {
	key  string   // heap key (with optional @site)
	sort string   // sort of the stored root value
	idx  []string // ref, or ref + index
	path []pathEl // accessors into a datatype value
	plain bool    // X| keys: not an array
}

type pathEl struct {
	si  *structInfo
	fld int
}

type closureInfo struct {
	fn       *ssa.Function
	bindings []ssa.Value
	frame    *frame
}

type deferRec struct {
	instr *ssa.Defer
	armed string
	args  []string
	tup   [][]string
}

type fnCtx struct {
	atHit map[string]bool
	// source texts of the calls named by called("...") in the contract: a ghost flag per text records whether such a
	// call has been executed on the path
	calledRefs map[string]bool
	e          *Engine
	fn         *ssa.Function
	key        string
	c          *FuncContract
	sc         *Script
	obls       []*Obligation
	heap0      map[string]string
	abstracted []string
	unmodelled map[string]bool
	used       map[string]bool // contracts / speclib used
	names      map[string]int
	sweep      bool
	inputs     map[string]string
	lkeys      map[string]bool
	ancestors  map[int]map[int]bool // block -> set of blocks that can reach it (forward CFG), incl. itself
}

type frame struct {
	allCallErrs []callErr // (noownerrors) the error results of the calls executed so far
	calleeArgs func(int) string // set while the contract of an external callee is applied: its arguments by index
	lexPos token.Pos // source position of the clause being evaluated: names resolve to the variables lexically in scope there
	lastMapRange, lastMapRangeKS, lastMapDom0 string // the map iterator most recently created in this frame
	evalPos token.Pos // source position of the call site being asserted (incase)
	fc       *fnCtx
	fn       *ssa.Function
	parent   *frame
	regs     map[ssa.Value]string
	tuples   map[ssa.Value][]string
	locs     map[ssa.Value]*Loc
	closures map[ssa.Value]*closureInfo
	freeBind []ssa.Value // for closures: bindings in parent frame
	bindFr   *frame
	in       map[*ssa.BasicBlock]*state
	edges    map[[2]int]*state // state along edge (pred index, succ index) with reach = edge condition
	defers   []*deferRec
	old      *state
	params   map[string]TV
	depth    int
	loops    map[*ssa.BasicBlock]*loopInfo
	order    []*ssa.BasicBlock
	retStates []*retRec
	top      bool
	siteOK   map[*ssa.Alloc]bool
	lastRange string
	evalBlock *ssa.BasicBlock // program point at which contract expressions are being evaluated
	curCall  *ssa.CallCommon
	callErrs []callErr // calls that returned an error value (for propagation obligations)
	noEsc    bool // suppress the "escaped" assumption (loop-carried locals)
}

type retRec struct {
	st      *state
	results []string
	instr   *ssa.Return
}

type loopInfo struct {
	header  *ssa.BasicBlock
	ordinal int
	blocks  map[*ssa.BasicBlock]bool
	backs   []*ssa.BasicBlock // sources of back edges
	spec    *LoopSpec
	variant string // value at head
	hvars   map[string]TV
	writes  map[string]bool
	head    *state
	entry   *state
	outer   *LoopSpec // clauses supplied by the verification unit this function is inlined into
	siteArgs   map[string]bool
	siteWrites map[string]bool // site-specific keys stored to directly inside the loop
	closures bool // the loop creates, defers or calls closures / inlined code
}

func (fc *fnCtx) abstract(format string, a ...interface{}) {
	s := fmt.Sprintf(format, a...)
	for _, x := range fc.abstracted {
		if x == s {
			return
		}
	}
	fc.abstracted = append(fc.abstracted, s)
}

func (fc *fnCtx) hget(st *state, key string) string {
	if v, ok := st.heap[key]; ok {
		return v
	}
	if v, ok := fc.heap0[key]; ok {
		return v
	}
	n := "H0_" + sanitize(key)
	fc.sc.add("(declare-fun %s () %s)", n, heapSort(fc.e.u, key))
	fc.heap0[key] = n
	return n
}

func (fc *fnCtx) hset(st *state, key string, term string) {
	st.heap[key] = fc.sc.define("h_"+shortKey(key), heapSort(fc.e.u, key), term)
}

func shortKey(k string) string {
	if len(k) > 40 {
		k = k[:40]
	}
	return k
}

func (fc *fnCtx) havoc(st *state, key string) {
	if key == "*" {
		// everything known so far
		for k := range fc.heap0 {
			st.heap[k] = fc.sc.declare("hv_"+shortKey(k), heapSort(fc.e.u, k))
		}
		for k := range st.heap {
			if _, ok := fc.heap0[k]; !ok && !strings.HasPrefix(k, "X|called:") {
				st.heap[k] = fc.sc.declare("hv_"+shortKey(k), heapSort(fc.e.u, k))
			}
		}
		return
	}
	if key == "EXT" || key == "CH" || strings.HasPrefix(key, "PARAM:") {
		return
	}
	st.heap[key] = fc.sc.declare("hv_"+shortKey(key), heapSort(fc.e.u, key))
}

// havocKeys havocs type-based keys including every site-specific variant that is reachable
// by the callee (site keys of escaping allocations are never created, so only exact keys
// and closure-captured site keys listed explicitly are affected).
// pointHavoc havocs field key k only at object ref (the callee writes that field through this object only).
func (fc *fnCtx) pointHavoc(st *state, k string, ref string) {
	srt := heapSort(fc.e.u, k)
	// element sort of (Array Int X)
	es := strings.TrimSuffix(strings.TrimPrefix(srt, "(Array Int "), ")")
	v := fc.sc.declare("hvp_"+shortKey(k), es)
	fc.hset(st, k, app("store", fc.hget(st, k), ref, v))
}

// resolveBased splits effect keys into whole-key havocs and point havocs. argOf maps a parameter index of
// the callee to the term of the actual argument ("" if unknown).
func resolveBased(keys []string, argOf func(int) string) (whole []string, points map[string][]string) {
	points = map[string][]string{}
	plain := map[string]bool{}
	for _, k := range keys {
		if !strings.Contains(k, "#") {
			plain[k] = true
		}
	}
	for _, k := range keys {
		i := strings.Index(k, "#")
		if i < 0 {
			whole = append(whole, k)
			continue
		}
		base, cls := k[:i], k[i:]
		if plain[base] {
			continue
		}
		switch {
		case cls == "#FRESH":
			// only objects allocated by the callee: nothing that existed before changes
		case strings.HasPrefix(cls, "#P"):
			var j int
			fmt.Sscanf(cls, "#P%d", &j)
			a := ""
			if argOf != nil {
				a = argOf(j)
			}
			if a == "" {
				whole = append(whole, base)
				plain[base] = true
			} else {
				points[base] = append(points[base], a)
			}
		default:
			whole = append(whole, base)
			plain[base] = true
		}
	}
	for b := range points {
		if plain[b] {
			delete(points, b)
		}
	}
	return
}

func (fc *fnCtx) havocKeys(st *state, keys []string) {
	keys, pts := resolveBased(keys, nil)
	_ = pts
	seen := map[string]bool{}
	for _, k := range keys {
		if seen[k] {
			continue
		}
		seen[k] = true
		if k == "*" {
			fc.havoc(st, "*")
			return
		}
	}
	ks := make([]string, 0, len(seen))
	for k := range seen {
		ks = append(ks, k)
	}
	sort.Strings(ks)
	for _, k := range ks {
		fc.havoc(st, k)
	}
}

func (fc *fnCtx) oblName(kind, anchor string) string {
	base := fc.key + "#" + kind
	if anchor != "" {
		base += ":" + anchor
	}
	fc.names[base]++
	if n := fc.names[base]; n > 1 {
		return fmt.Sprintf("%s#%d", base, n)
	}
	return base
}

// splitAnd returns the top-level conjuncts of an SMT term.
func splitAnd(t string) []string {
	if !strings.HasPrefix(t, "(and ") {
		return []string{t}
	}
	body := t[5 : len(t)-1]
	var out []string
	depth, start := 0, 0
	inBar := false
	for i := 0; i < len(body); i++ {
		switch body[i] {
		case '|':
			inBar = !inBar
		case '(':
			if !inBar {
				depth++
			}
		case ')':
			if !inBar {
				depth--
			}
		case ' ':
			if depth == 0 && !inBar {
				if i > start {
					out = append(out, body[start:i])
				}
				start = i + 1
			}
		}
	}
	if start < len(body) {
		out = append(out, body[start:])
	}
	var flat []string
	for _, o := range out {
		flat = append(flat, splitAnd(o)...)
	}
	return flat
}

func (fr *frame) oblige(st *state, kind, anchor string, pos token.Pos, cond string, desc string) {
	if parts := splitAnd(cond); len(parts) > 1 && (kind == "post" || kind == "pre" || kind == "inv" || kind == "step" || kind == "at") {
		for i, p := range parts {
			fr.oblige1(st, kind, fmt.Sprintf("%s/%d", anchor, i+1), pos, p, desc)
		}
		return
	}
	fr.oblige1(st, kind, anchor, pos, cond, desc)
}

func (fr *frame) oblige1(st *state, kind, anchor string, pos token.Pos, cond string, desc string) {
	fc := fr.fc
	if cond == "true" {
		// trivially true conditions still count as (syntactically discharged) obligations
	}
	ps := ""
	if pos.IsValid() {
		p := fc.e.fset.Position(pos)
		ps = fmt.Sprintf("%s:%d", strings.TrimPrefix(p.Filename, fc.e.repo+"/"), p.Line)
	}
	prefix := ""
	for f := fr; f != nil && !f.top; f = f.parent {
		prefix = "via(" + fc.e.keyOf(f.fn) + ")" + prefix
	}
	if prefix != "" {
		anchor = anchor + "@" + prefix
	}
	o := &Obligation{Name: fc.oblName(kind, anchor), Func: fc.key, Kind: kind, Anchor: anchor, Pos: ps,
		Prefix: len(fc.sc.lines), Reach: st.reach, Cond: cond, Desc: desc, script: fc.sc, Inputs: fc.inputs, Blk: fc.sc.cur}
	if fc.sc.cur >= 0 && fc.ancestors != nil {
		o.anc = fc.ancestors[fc.sc.cur]
	}
	fc.obls = append(fc.obls, o)
}

// CoverQuery asks whether the obligation's program point is reachable under the assumptions.
// relevant: a script line belongs to the query if it is global or was emitted by a block from which the
// obligation's block can be reached; assumptions of other blocks are guarded by reach conditions that are
// false on every path to the obligation, so leaving them out loses nothing (and is sound in any case).
func (o *Obligation) relevant(i int) bool {
	if o.anc == nil || i >= len(o.script.tags) {
		return true
	}
	t := o.script.tags[i]
	if t < 0 || o.anc[t] {
		return true
	}
	// declarations and definitions are kept (they may be referenced, e.g. by deferred calls); only the
	// assumptions of unrelated blocks are dropped
	return !strings.HasPrefix(o.script.lines[i], "(assert")
}

func (o *Obligation) CoverQuery(u *Universe) string {
	var sb strings.Builder
	for i, l := range o.script.lines[:o.Prefix] {
		if !o.relevant(i) {
			continue
		}
		sb.WriteString(l)
		sb.WriteString("\n")
	}
	fmt.Fprintf(&sb, "(assert %s)\n(check-sat)\n", o.Reach)
	body := sb.String()
	return u.headerFor(body) + body
}

func (o *Obligation) Query(u *Universe, wantModel bool) string {
	var sb strings.Builder
	for i, l := range o.script.lines[:o.Prefix] {
		if !o.relevant(i) {
			continue
		}
		sb.WriteString(l)
		sb.WriteString("\n")
	}
	fmt.Fprintf(&sb, "(assert %s)\n(assert (not %s))\n(check-sat)\n", o.Reach, o.Cond)
	if wantModel {
		sb.WriteString("(get-model)\n")
	}
	body := sb.String()
	return u.headerFor(body) + body
}

// ---------------------------------------------------------------------------
// Verification unit set-up

func (e *Engine) newFnCtx(fn *ssa.Function) *fnCtx {
	key := e.keyOf(fn)
	c := e.contracts.Funcs[key]
	if c == nil {
		c = &FuncContract{Key: key, Loops: map[int]*LoopSpec{}}
	}
	return &fnCtx{e: e, fn: fn, key: key, c: c, sc: &Script{}, heap0: map[string]string{}, unmodelled: map[string]bool{},
		used: map[string]bool{}, names: map[string]int{}, inputs: map[string]string{}}
}

// verifyFunction generates all obligations of one function under its contract.
func (e *Engine) genFunction(fn *ssa.Function) (fc *fnCtx, err error) {
	fc = e.newFnCtx(fn)
	defer func() {
		if r := recover(); r != nil {
			if ee, ok := r.(engineError); ok {
				err = fmt.Errorf("%s: %s", fc.key, string(ee))
				return
			}
			panic(r)
		}
	}()
	fc.c.Used = true
	fc.sc.cur = -1
	if fc.c.Trusted {
		fc.abstract("TRUSTED contract: body not verified")
		return fc, nil
	}
	st := &state{reach: "true", heap: map[string]string{}, alloc: ""}
	st.alloc = fc.sc.declare("alloc0", "Int")
	fc.sc.assume("(>= " + st.alloc + " 1)")
	fr := fc.newFrame(fn, nil)
	fr.top = true
	// axioms
	fc.emitAxioms()
	fc.calledRefs = map[string]bool{}
	for _, src := range fc.c.allSources() {
		for _, m := range calledRe.FindAllStringSubmatch(src, -1) {
			fc.calledRefs[normText(strings.ReplaceAll(m[1], "\\\"", "\""))] = true
		}
	}
	for text := range fc.calledRefs {
		st.heap[calledKey(text)] = "false"
	}
	// parameters
	var args []string
	for _, p := range fn.Params {
		srt := e.u.sortOf(p.Type())
		v := fc.sc.declare("p_"+p.Name(), srt)
		fc.inputs[p.Name()] = v
		fr.typeInv(st, v, srt, p.Type(), true)
		args = append(args, v)
	}
	fvNames := map[string]TV{}
	for i, fv := range fn.FreeVars {
		// verifying a closure standalone: free variables are unknown cells
		srt := e.u.sortOf(fv.Type())
		v := fc.sc.declare("fv_"+fv.Name(), srt)
		fr.regs[fv] = v
		fc.sc.assume(fmt.Sprintf("(and (> %s 0) (< %s %s))", v, v, st.alloc))
		_ = i
		// contract expressions may name a captured variable: its value is the content of the cell
		if pt, ok := fv.Type().Underlying().(*types.Pointer); ok {
			et := pt.Elem()
			es := e.u.sortOf(et)
			if e.u.structInfoOf(et) == nil {
				cell := app("select", fc.hget(st, "C|"+es), v)
				cv := fc.sc.define("fvval_"+fv.Name(), es, cell)
				fr.typeInv(st, cv, es, et, true)
				fvNames[fv.Name()] = TV{T: cv, Sort: es, Typ: et}
			}
		}
	}
	for n, tv := range fvNames {
		fr.params[n] = tv
	}
	fr.bindParams(args)
	fr.params["fn"] = TV{T: e.u.fnID(fc.key), Sort: "Int"}
	fr.old = st.clone()
	// requires
	env := fr.specEnv(st, fr.old)
	for _, rq := range fc.c.Requires {
		t := env.evalBool(rq.Expr, rq.Src)
		fc.sc.assume(t)
	}
	for _, rq := range fc.c.Assumes {
		t := env.evalBool(rq.Expr, rq.Src)
		fc.sc.assume(t)
	}
	fr.run(st, args)
	// returns
	assertHits := make([]int, len(fc.c.Asserts))
	for _, rr := range fr.retStates {
		fc.sc.cur = rr.instr.Block().Index
		fr.evalBlock = rr.instr.Block()
		env := fr.specEnv(rr.st, fr.old)
		fr.bindResults(env, rr.results)
		for k, v := range fr.localsAt(rr.instr.Block()) {
			if _, ok := env.vars[k]; !ok {
				env.vars[k] = v
			}
		}
		for _, pd := range fc.c.PostDefs {
			fc.sc.assume(implies(rr.st.reach, env.evalBool(pd.Expr, pd.Src)))
		}
		// returns inside a switch arm are named after the arm (stable and telling: walk#post:out@case:*parse.SetNode)
		where := ""
		if cs := fr.anchorText(rr.instr.Pos(), "case"); cs != "" {
			where = "@case:" + strings.Join(strings.Fields(cs), "")
		}
		for i, en := range fc.c.Ensures {
			label := en.Label
			if label == "" {
				label = fmt.Sprintf("e%d", i+1)
			}
			t := env.evalBool(en.Expr, en.Src)
			fr.oblige(rr.st, "post", label+where, rr.instr.Pos(), t, en.Src)
		}
		for i, en := range fc.c.Asserts {
			label := en.Label
			if label == "" {
				label = fmt.Sprintf("a%d", i+1)
			}
			if en.Case != "" && "@case:"+en.Case != where && !fr.inCase(rr.instr.Pos(), en.Case) {
				// (the clause of an arm also covers the returns of switches nested inside that arm)
				continue
			}
			// a body-only assertion may mention locals that do not exist on every return path: it is checked
			// at the returns where they do (at least one, or the contract is rejected below)
			aenv := *env
			fr.lexPos = rr.instr.Pos()
			aenv.vars = fr.shadowed(env.vars, rr.instr.Block())
			fr.lexPos = token.NoPos
			{
				// the names of the results (r0.., result, err, named results) always mean the values returned
				renv := &specEnv{vars: map[string]TV{}}
				fr.bindResults(renv, rr.results)
				for k, v := range renv.vars {
					aenv.vars[k] = v
				}
			}
			t, ok := func() (t string, ok bool) {
				env := &aenv
				defer func() {
					if r := recover(); r != nil {
						if ee, is := r.(engineError); is && strings.Contains(string(ee), "unknown identifier") {
							ok = false
							return
						}
						panic(r)
					}
				}()
				return env.evalBool(en.Expr, en.Src), true
			}()
			if !ok {
				if en.Strict {
					res := fr.fn.Signature.Results()
					if len(rr.results) > 0 && isErrorType(res.At(res.Len()-1).Type()) {
						fr.oblige(rr.st, "post", label+".reached"+where, rr.instr.Pos(), fmt.Sprintf("(not (= (vtag %s) 0))", rr.results[len(rr.results)-1]),
							"a return that does not pass the point where "+en.Src+" can be evaluated must return an error")
					} else {
						// no error result to blame: every return must pass that point
						fr.oblige(rr.st, "post", label+".reached"+where, rr.instr.Pos(), "false", "every return must pass the point where "+en.Src+" can be evaluated")
					}
				}
				continue
			}
			assertHits[i]++
			fr.oblige(rr.st, "post", label+where, rr.instr.Pos(), t, en.Src)
		}
		// "noownerrors": a non-nil error result is the error result of a call on the way here
		if fc.c.OwnErrors && len(rr.results) > 0 {
			res := fr.fn.Signature.Results()
			if isErrorType(res.At(res.Len() - 1).Type()) {
				reterr := rr.results[len(rr.results)-1]
				var alts []string
				for _, ce := range fr.allCallErrs {
					if fc.ancestors[rr.instr.Block().Index][ce.blk] || ce.blk == rr.instr.Block().Index {
						alts = append(alts, and(ce.reach, eq(reterr, ce.err)))
					}
				}
				cond := fmt.Sprintf("(= (vtag %s) 0)", reterr)
				if len(alts) > 0 {
					cond = or(append([]string{cond}, alts...)...)
				}
				fr.oblige(rr.st, "post", "noownerrors"+where, rr.instr.Pos(), cond, "an error this function returns is the error one of its calls returned (it raises none of its own)")
			}
		}
		// error propagation (C17): an error returned by a callee on the way here is not swallowed
		if fc.c.Propagates && len(rr.results) > 0 {
			res := fr.fn.Signature.Results()
			if isErrorType(res.At(res.Len() - 1).Type()) {
				reterr := rr.results[len(rr.results)-1]
				for _, ce := range fr.callErrs {
					if !fc.ancestors[rr.instr.Block().Index][ce.blk] {
						continue
					}
					cond := implies(and(ce.reach, fmt.Sprintf("(not (= (vtag %s) 0))", ce.err)), fmt.Sprintf("(not (= (vtag %s) 0))", reterr))
					fr.oblige(rr.st, "propagate", ce.text+where, rr.instr.Pos(), cond, "an error returned by "+ce.text+" must be returned")
				}
			}
		}
	}
	// a call-site assertion whose call is no longer in the body cannot be checked: reported as a failed obligation
	var atKeys []string
	for k := range fc.c.At {
		atKeys = append(atKeys, k)
	}
	sort.Strings(atKeys)
	for k := range fc.c.After {
		atKeys = append(atKeys, "after:"+k)
	}
	sort.Strings(atKeys)
	for _, k := range atKeys {
		if !fc.atHit[k] && !fc.c.AtOpt[k] {
			fc.sc.cur = -1
			o := &Obligation{Name: fc.oblName("at", k+".anchor"), Func: fc.key, Kind: "at", Anchor: k + ".anchor", Prefix: 0, Reach: "true", Cond: "false",
				Desc: "the call " + k + " named by an at-clause of the contract is not in the function body", script: fc.sc, Inputs: fc.inputs, Blk: -1}
			fc.obls = append(fc.obls, o)
		}
	}
	for i, en := range fc.c.Asserts {
		if assertHits[i] == 0 && len(fr.retStates) > 0 {
			// the clause attaches to no return (case text or local names do not match the code any more): one failed
			// obligation of that clause - reported by the properties that claim the clause, not by every property
			// that has the function in scope
			label := en.Label
			if label == "" {
				label = fmt.Sprintf("a%d", i+1)
			}
			fc.sc.cur = -1
			o := &Obligation{Name: fc.oblName("post", label+".attach"), Func: fc.key, Kind: "post", Anchor: label + ".attach", Prefix: 0, Reach: "true", Cond: "false",
				Desc: "the clause " + en.Src + " is checked at no return (its case text or the locals it names do not match the code)", script: fc.sc, Inputs: fc.inputs, Blk: -1}
			fc.obls = append(fc.obls, o)
		}
	}
	return fc, nil
}

type engineError string

func fail(format string, a ...interface{}) {
	panic(engineError(fmt.Sprintf(format, a...)))
}

func (fc *fnCtx) emitAxioms() {
	for _, ax := range fc.e.contracts.Axioms {
		if ax.Lemma {
			continue
		}
		env := &specEnv{fc: fc, vars: map[string]TV{}, pkg: ax.Pkg}
		t := env.evalBool(ax.Expr, ax.Src)
		fc.sc.assume(t)
	}
}

func (fc *fnCtx) newFrame(fn *ssa.Function, parent *frame) *frame {
	fr := &frame{fc: fc, fn: fn, parent: parent, regs: map[ssa.Value]string{}, tuples: map[ssa.Value][]string{},
		locs: map[ssa.Value]*Loc{}, closures: map[ssa.Value]*closureInfo{}, in: map[*ssa.BasicBlock]*state{},
		edges: map[[2]int]*state{}, params: map[string]TV{}, siteOK: map[*ssa.Alloc]bool{}}
	if parent != nil {
		fr.depth = parent.depth + 1
	}
	return fr
}

func (fr *frame) bindParams(args []string) {
	for i, p := range fr.fn.Params {
		fr.regs[p] = args[i]
		tv := TV{T: args[i], Sort: fr.fc.e.u.sortOf(p.Type()), Typ: p.Type()}
		fr.params[fmt.Sprintf("a%d", i)] = tv
		fr.params[p.Name()] = tv
	}
}

func (fr *frame) bindResults(env *specEnv, results []string) {
	res := fr.fn.Signature.Results()
	for i := 0; i < res.Len(); i++ {
		v := res.At(i)
		tv := TV{T: results[i], Sort: fr.fc.e.u.sortOf(v.Type()), Typ: v.Type()}
		if v.Name() != "" && v.Name() != "_" {
			env.vars[v.Name()] = tv
		}
		env.vars[fmt.Sprintf("r%d", i)] = tv
		if res.Len() == 1 || (i == 0 && !isErrorType(v.Type())) {
			if _, ok := env.vars["result"]; !ok {
				env.vars["result"] = tv
			}
		}
		if isErrorType(v.Type()) {
			if _, ok := env.vars["err"]; !ok {
				env.vars["err"] = tv
			}
		}
	}
}

func isErrorType(t types.Type) bool {
	n, ok := t.(*types.Named)
	return ok && n.Obj().Pkg() == nil && n.Obj().Name() == "error"
}

// typeInv adds the representation invariants of a symbolic value of the given sort.
func (fr *frame) typeInv(st *state, v, srt string, t types.Type, isParam bool) {
	sc := fr.fc.sc
	switch srt {
	case "Str":
		sc.assume(implies(st.reach, fmt.Sprintf("(and (<= 0 (slo %s)) (<= (slo %s) (shi %s)))", v, v, v)))
	case "Slice":
		sc.assume(implies(st.reach, fmt.Sprintf("(and (<= 0 (soff %s)) (<= 0 (sllen %s)) (<= 0 (sref %s)) (< (sref %s) %s) (=> (= (sref %s) 0) (= (sllen %s) 0)) (<= (sllen %s) 1099511627776))", v, v, v, v, st.alloc, v, v, v)))
		// a slice obtained from a parameter, the heap or a call is reachable by others
		if !fr.noEsc {
			sc.assume(implies(st.reach, app("select", fr.fc.hget(st, "ESC"), app("sref", v))))
		}
	case "Int":
		if t == nil {
			return
		}
		switch tt := t.Underlying().(type) {
		case *types.Pointer, *types.Map, *types.Chan:
			_ = tt
			sc.assume(implies(st.reach, fmt.Sprintf("(and (<= 0 %s) (< %s %s))", v, v, st.alloc)))
			if _, isMap := tt.(*types.Map); isMap && !fr.noEsc {
				sc.assume(implies(st.reach, app("select", fr.fc.hget(st, "ESC"), v)))
			}
			if isParam {
				if _, ok := tt.(*types.Pointer); ok {
					// assumption A-nonnil: pointer parameters are non-nil at entry
					sc.assume(fmt.Sprintf("(> %s 0)", v))
				}
			}
		case *types.Basic:
			if tt.Info()&types.IsUnsigned != 0 {
				sc.assume(implies(st.reach, fmt.Sprintf("(>= %s 0)", v)))
			}
			switch tt.Kind() {
			case types.Uint8:
				sc.assume(implies(st.reach, fmt.Sprintf("(<= %s 255)", v)))
			case types.Int32:
				// rune: keep unconstrained range wide
			}
		case *types.Signature:
			sc.assume(implies(st.reach, fmt.Sprintf("(>= %s 0)", v)))
		}
	case "Val":
		sc.assume(implies(st.reach, fmt.Sprintf("(and (>= (vtag %s) 0) (=> (= (vtag %s) 0) (= (vpay %s) 0)))", v, v, v)))
	default:
		// struct datatypes: invariants of fields
		if si := fr.fc.e.u.structInfoOf(t); si != nil {
			for i, fs := range si.sorts {
				if fs == "Str" || fs == "Slice" || fs == "Val" {
					fr.typeInv(st, app(si.fields[i], v), fs, si.typ.Field(i).Type(), false)
				}
			}
		}
	}
}

// ---------------------------------------------------------------------------
// CFG preparation

func (fr *frame) prepare() {
	fn := fr.fn
	// back edges: u->h where h dominates u
	fr.loops = map[*ssa.BasicBlock]*loopInfo{}
	for _, b := range fn.Blocks {
		for _, s := range b.Succs {
			if s.Dominates(b) {
				li := fr.loops[s]
				if li == nil {
					li = &loopInfo{header: s, blocks: map[*ssa.BasicBlock]bool{s: true}}
					fr.loops[s] = li
				}
				li.backs = append(li.backs, b)
				// natural loop body
				stack := []*ssa.BasicBlock{b}
				for len(stack) > 0 {
					x := stack[len(stack)-1]
					stack = stack[:len(stack)-1]
					if li.blocks[x] {
						continue
					}
					li.blocks[x] = true
					stack = append(stack, x.Preds...)
				}
			}
		}
	}
	// ordinals by position of header in source order (block index as tie-break)
	var hs []*ssa.BasicBlock
	for h := range fr.loops {
		hs = append(hs, h)
	}
	lpos := map[*ssa.BasicBlock]token.Pos{}
	for _, h := range hs {
		best := token.NoPos
		for b := range fr.loops[h].blocks {
			if p := loopPos(b); p.IsValid() && (best == token.NoPos || p < best) {
				best = p
			}
		}
		lpos[h] = best
	}
	sort.Slice(hs, func(i, j int) bool {
		pi, pj := lpos[hs[i]], lpos[hs[j]]
		if pi != pj {
			return pi < pj
		}
		return hs[i].Index < hs[j].Index
	})
	key := fr.fc.e.keyOf(fn)
	c := fr.fc.e.contracts.Funcs[key]
	for i, h := range hs {
		li := fr.loops[h]
		li.ordinal = i + 1
		if c != nil {
			li.spec = c.Loops[i+1]
		}
		// when this function is inlined, the enclosing verification unit may add clauses for its loops;
		// they are evaluated in the enclosing function's frame (its parameters, old state and locals)
		if !fr.top {
			if extra := fr.fc.c.InLoops[fmt.Sprintf("%s:%d", key, i+1)]; extra != nil {
				li.outer = extra
			}
		}
		li.writes = map[string]bool{}
		li.siteWrites = map[string]bool{}
		for b := range li.blocks {
			for _, in := range b.Instrs {
				for _, k := range fr.fc.e.instrEffects(fn, in) {
					li.writes[k] = true
					if strings.HasSuffix(k, "#FRESH") {
						// fields of objects allocated in the loop: site-specific variants may exist
						li.writes[stripBase(k)+"#FRESHBASE"] = true
					}
				}
				switch v := in.(type) {
				case *ssa.Store:
					// direct store to a local cell / local struct: its site-specific key
					base := v.Addr
					for {
						if fa, ok := base.(*ssa.FieldAddr); ok {
							base = fa.X
							continue
						}
						break
					}
					if site := fr.siteOf(base); site != "" {
						for _, k := range fr.fc.e.addrKeys(v.Addr) {
							li.siteWrites[k+site] = true
						}
					}
				case *ssa.MakeClosure, *ssa.Defer, *ssa.Go:
					li.closures = true
				case *ssa.Call:
					if _, ok := v.Call.Value.(*ssa.MakeClosure); ok {
						li.closures = true
					}
					if fr.lookupClosure(v.Call.Value) != nil {
						li.closures = true
					}
					if g := v.Call.StaticCallee(); g != nil && fr.fc.e.isRepoFn(g) {
						if ct := fr.fc.e.contracts.Funcs[fr.fc.e.keyOf(g)]; (ct != nil && ct.Inline) || fr.fc.c.Inlines[fr.fc.e.keyOf(g)] {
							// expanded code may store to a cell of this frame only through an address it is handed
							if g.Parent() != nil || len(g.FreeVars) > 0 {
								li.closures = true
							}
							for _, a := range v.Call.Args {
								if _, isPtr := a.Type().Underlying().(*types.Pointer); !isPtr {
									continue
								}
								base := a
								for {
									if fa, ok := base.(*ssa.FieldAddr); ok {
										base = fa.X
										continue
									}
									break
								}
								if site := fr.siteOf(base); site != "" {
									if li.siteArgs == nil {
										li.siteArgs = map[string]bool{}
									}
									li.siteArgs[site] = true
								} else if _, isAlloc := base.(*ssa.Alloc); !isAlloc {
									if _, isParam := base.(*ssa.Parameter); !isParam {
										if _, isCall := base.(*ssa.Call); !isCall {
											if _, isLoad := base.(*ssa.UnOp); !isLoad {
												li.closures = true // a pointer of unknown origin
											}
										}
									}
								}
							}
						}
					}
				}
			}
		}
	}
	// topological order ignoring back edges (reverse post-order)
	seen := map[*ssa.BasicBlock]bool{}
	var post []*ssa.BasicBlock
	var dfs func(b *ssa.BasicBlock)
	dfs = func(b *ssa.BasicBlock) {
		seen[b] = true
		for _, s := range b.Succs {
			if !seen[s] && !s.Dominates(b) {
				dfs(s)
			} else if !seen[s] && s.Dominates(b) {
				// back edge target is always seen already
			}
		}
		post = append(post, b)
	}
	if len(fn.Blocks) > 0 {
		dfs(fn.Blocks[0])
	}
	for i := len(post) - 1; i >= 0; i-- {
		fr.order = append(fr.order, post[i])
	}
	// recover block (if any) is ignored: no recover() in the repo
}

func loopPos(h *ssa.BasicBlock) token.Pos {
	best := token.NoPos
	for _, in := range h.Instrs {
		if p := in.Pos(); p.IsValid() && (best == token.NoPos || p < best) {
			best = p
		}
	}
	return best
}

// run symbolically executes the function body from state st.
func (fr *frame) run(st *state, args []string) {
	fr.prepare()
	fn := fr.fn
	if len(fn.Blocks) == 0 {
		return
	}
	fr.in[fn.Blocks[0]] = st
	if fr.top {
		fr.fc.computeAncestors(fn)
	}
	for _, b := range fr.order {
		if fr.top {
			fr.fc.sc.cur = b.Index
		}
		var cur *state
		if b == fn.Blocks[0] {
			cur = st
		} else {
			cur = fr.mergeInto(b)
			if cur == nil {
				continue // unreachable
			}
		}
		if li := fr.loops[b]; li != nil {
			fr.enterLoop(b, li, cur)
		} else {
			fr.doPhis(b, cur, false)
		}
		fr.in[b] = cur
		fr.execBlock(b, cur)
	}
}

// mergeInto computes the entry state of block b from its forward predecessor edges.
func (fr *frame) mergeInto(b *ssa.BasicBlock) *state {
	var ins []*state
	for _, p := range b.Preds {
		if b.Dominates(p) && fr.loops[b] != nil {
			continue // back edge
		}
		if es, ok := fr.edges[[2]int{p.Index, b.Index}]; ok {
			ins = append(ins, es)
		}
	}
	if len(ins) == 0 {
		return nil
	}
	if len(ins) == 1 {
		c := ins[0].clone()
		c.reach = fr.fc.sc.define("reach_b", "Bool", c.reach)
		return c
	}
	sc := fr.fc.sc
	res := &state{heap: map[string]string{}}
	var rs []string
	for _, s := range ins {
		rs = append(rs, s.reach)
	}
	res.reach = sc.define("reach_b", "Bool", or(rs...))
	keys := map[string]bool{}
	for _, s := range ins {
		for k := range s.heap {
			keys[k] = true
		}
	}
	var ks []string
	for k := range keys {
		ks = append(ks, k)
	}
	sort.Strings(ks)
	for _, k := range ks {
		t := fr.fc.hget(ins[len(ins)-1], k)
		same := true
		for i := len(ins) - 2; i >= 0; i-- {
			ti := fr.fc.hget(ins[i], k)
			if ti != t {
				same = false
			}
			t = ite(ins[i].reach, ti, t)
		}
		if same {
			res.heap[k] = fr.fc.hget(ins[0], k)
		} else {
			res.heap[k] = sc.defineConst("hm_"+shortKey(k), heapSort(fr.fc.e.u, k), t)
		}
	}
	t := ins[len(ins)-1].alloc
	for i := len(ins) - 2; i >= 0; i-- {
		t = ite(ins[i].reach, ins[i].alloc, t)
	}
	res.alloc = sc.define("alloc", "Int", t)
	return res
}

// doPhis assigns phi registers of a non-header block from incoming edges.
func (fr *frame) doPhis(b *ssa.BasicBlock, cur *state, header bool) {
	for _, in := range b.Instrs {
		phi, ok := in.(*ssa.Phi)
		if !ok {
			break
		}
		srt := fr.fc.e.u.sortOf(phi.Type())
		var t string
		first := true
		for i := len(b.Preds) - 1; i >= 0; i-- {
			p := b.Preds[i]
			es, ok := fr.edges[[2]int{p.Index, b.Index}]
			if !ok {
				continue
			}
			v := fr.val(phi.Edges[i])
			if first {
				t = v
				first = false
			} else {
				t = ite(es.reach, v, t)
			}
		}
		if first {
			t = fr.fc.e.u.zero(srt)
		}
		fr.regs[phi] = fr.fc.sc.define("phi_"+phi.Comment, srt, t)
		// closures flowing through phis are not tracked
	}
}

func (fr *frame) loopVars(h *ssa.BasicBlock) map[string]TV {
	vars := map[string]TV{}
	u := fr.fc.e.u
	for n, v := range fr.namedAt(h, true) {
		if t, ok := fr.regs[v]; ok {
			vars[n] = TV{T: t, Sort: u.sortOf(v.Type()), Typ: v.Type()}
		}
	}
	// phis of dominating blocks (variables of enclosing loops), nearest dominator last
	var doms []*ssa.BasicBlock
	for d := h; d != nil; d = d.Idom() {
		doms = append(doms, d)
	}
	for i := len(doms) - 1; i >= 0; i-- {
		for _, in := range doms[i].Instrs {
			phi, ok := in.(*ssa.Phi)
			if !ok {
				break
			}
			if phi.Comment != "" {
				if lex := fr.lexObject(phi.Comment); lex != nil && phi.Pos().IsValid() && lex.Pos().IsValid() && lex.Pos() != phi.Pos() {
					continue
				}
				if t, ok := fr.regs[phi]; ok {
					vars[phi.Comment] = TV{T: t, Sort: u.sortOf(phi.Type()), Typ: phi.Type()}
				}
			}
		}
	}
	return vars
}

// addrLocal resolves a named local that lives in an allocation (struct locals, captured variables):
// its value is loaded from the given state.
func (fr *frame) addrLocal(st *state, name string) (TV, bool) {
	u := fr.fc.e.u
	// a variable of the enclosing function captured by reference (inlined closure)
	for _, fv := range fr.fn.FreeVars {
		if fv.Name() != name {
			continue
		}
		if pt, ok := fv.Type().Underlying().(*types.Pointer); ok && fr.bindFr != nil {
			et := pt.Elem()
			ref := fr.val(fv)
			site := fr.siteOf(fv)
			if u.structInfoOf(et) != nil {
				return TV{T: fr.loadStruct(st, ref, et, site), Sort: u.sortOf(et), Typ: et}, true
			}
			srt := u.sortOf(et)
			return TV{T: app("select", fr.fc.hget(st, "C|"+srt+site), ref), Sort: srt, Typ: et}, true
		}
	}
	var found *ssa.Alloc
	var cands []*ssa.Alloc
	for _, b := range fr.fn.Blocks {
		for _, in := range b.Instrs {
			dr, ok := in.(*ssa.DebugRef)
			if !ok || !dr.IsAddr {
				continue
			}
			id, ok := dr.Expr.(*ast.Ident)
			if !ok || id.Name != name {
				continue
			}
			al, ok := dr.X.(*ssa.Alloc)
			if !ok {
				continue
			}
			dup := false
			for _, c := range cands {
				if c == al {
					dup = true
				}
			}
			if !dup {
				cands = append(cands, al)
			}
		}
	}
	// variables captured by closures: "new T (name)" cells (their := definition has a value DebugRef only)
	for _, b := range fr.fn.Blocks {
		for _, in := range b.Instrs {
			if al, ok := in.(*ssa.Alloc); ok && al.Comment == name {
				dup := false
				for _, c := range cands {
					if c == al {
						dup = true
					}
				}
				if !dup {
					cands = append(cands, al)
				}
			}
		}
	}
	if len(cands) == 1 {
		found = cands[0]
	} else if len(cands) > 1 && fr.evalBlock != nil {
		// several locals of that name: the one whose allocation dominates the point of evaluation
		for _, c := range cands {
			if c.Block().Dominates(fr.evalBlock) && c.Block() != fr.fn.Blocks[0] || (c.Block() == fr.fn.Blocks[0] && len(cands) == 1) {
				if found != nil {
					return TV{}, false
				}
				found = c
			}
		}
	}
	if found == nil {
		return TV{}, false
	}
	ref, ok := fr.regs[found]
	if !ok {
		return TV{}, false
	}
	et := found.Type().Underlying().(*types.Pointer).Elem()
	site := fr.allocSite(found)
	if u.structInfoOf(et) != nil {
		return TV{T: fr.loadStruct(st, ref, et, site), Sort: u.sortOf(et), Typ: et}, true
	}
	srt := u.sortOf(et)
	return TV{T: app("select", fr.fc.hget(st, "C|"+srt+site), ref), Sort: srt, Typ: et}, true
}

// localsAt: uniquely-defined named locals whose definition dominates block b.
func (fr *frame) localsAt(b *ssa.BasicBlock) map[string]TV {
	vars := map[string]TV{}
	u := fr.fc.e.u
	for n, v := range fr.namedAt(b, false) {
		if t, ok := fr.regs[v]; ok {
			vars[n] = TV{T: t, Sort: u.sortOf(v.Type()), Typ: v.Type()}
		}
	}
	var doms []*ssa.BasicBlock
	for d := b; d != nil; d = d.Idom() {
		doms = append(doms, d)
	}
	for i := len(doms) - 1; i >= 0; i-- {
		for _, in := range doms[i].Instrs {
			phi, ok := in.(*ssa.Phi)
			if !ok {
				break
			}
			if phi.Comment != "" {
				if t, ok := fr.regs[phi]; ok {
					vars[phi.Comment] = TV{T: t, Sort: u.sortOf(phi.Type()), Typ: phi.Type()}
				}
			}
		}
	}
	return vars
}


// namedAt: named locals visible at block b — for each name, the unique SSA value referred to under that
// name whose definition dominates b (several same-named locals in different branches are told apart).
func (fr *frame) namedAt(b *ssa.BasicBlock, strict bool) map[string]ssa.Value {
	cands := map[string][]ssa.Value{}
	for _, bb := range fr.fn.Blocks {
		for _, in := range bb.Instrs {
			if dr, ok := in.(*ssa.DebugRef); ok && !dr.IsAddr {
				id, ok := dr.Expr.(*ast.Ident)
				if !ok {
					continue
				}
				if fv, isVar := dr.Object().(*types.Var); isVar && fv.IsField() {
					// (the selector identifier of a field access, not a local variable)
					continue
				}
				if _, isConst := dr.X.(*ssa.Const); isConst {
					// (the builder records "is nil" for a variable defined by a composite literal before the real value)
					continue
				}
				if lex := fr.lexObject(id.Name); lex != nil && dr.Object() != lex {
					// (a variable of the same name that is not the one in scope at the clause: an inner or sibling scope)
					continue
				}
				dup := false
				for _, c := range cands[id.Name] {
					if c == dr.X {
						dup = true
					}
				}
				if !dup {
					cands[id.Name] = append(cands[id.Name], dr.X)
				}
			}
		}
	}
	out := map[string]ssa.Value{}
	for n, vs := range cands {
		var ok []ssa.Value
		for _, v := range vs {
			if in, isInstr := v.(ssa.Instruction); isInstr {
				if !in.Block().Dominates(b) || (strict && in.Block() == b) {
					continue
				}
				if in.Block() == b {
					// in the block under execution only values already computed are in scope
					if _, have := fr.regs[v]; !have {
						if _, haveT := fr.tuples[v]; !haveT {
							continue
						}
					}
				}
			}
			ok = append(ok, v)
		}
		if len(ok) == 1 && (len(vs) == 1 || isInstrValue(ok[0])) {
			out[n] = ok[0]
		} else if len(ok) > 1 {
			// shadowing: several definitions dominate this point; the innermost (latest) one is in scope
			var best ssa.Value
			for _, v := range ok {
				vi, isI := v.(ssa.Instruction)
				if !isI {
					// a parameter or constant: the outermost scope, shadowed by any dominating definition
					continue
				}
				if best == nil {
					best = v
					continue
				}
				bi := best.(ssa.Instruction)
				switch {
				case bi.Block() == vi.Block():
					if instrIndex(vi) > instrIndex(bi) {
						best = v
					}
				case bi.Block().Dominates(vi.Block()):
					best = v
				case vi.Block().Dominates(bi.Block()):
				default:
					best = nil
				}
				if best == nil {
					break
				}
			}
			if best != nil {
				out[n] = best
			}
		}
	}
	return out
}

// shadowed: the variable environment of a body-level assertion: a local that shadows a parameter with a narrower
// type (the variable bound by a type switch: `switch node := node.(type)`) takes the parameter's place.
func (fr *frame) shadowed(vars map[string]TV, b *ssa.BasicBlock) map[string]TV {
	out := make(map[string]TV, len(vars))
	for k, v := range vars {
		out[k] = v
	}
	for k, v := range fr.localsAt(b) {
		// (a parameter that the body reassigns: body-level assertions see its current value, old(x) its entry value)
		_ = types.Identical
		out[k] = v
	}
	return out
}

// addCalleeLoopVars: clauses the enclosing function states about a loop of an expanded callee may also name the
// callee's own loop variables and the locals visible at the loop head (where the enclosing function has no variable
// of that name), and the variables of the enclosing function captured by closures.
func (fr *frame) addCalleeLoopVars(env *specEnv, h *ssa.BasicBlock) {
	for k, v := range fr.loopVars(h) {
		if _, ok := env.vars[k]; !ok {
			env.vars[k] = v
		}
	}
	for k, v := range fr.localsAt(h) {
		if _, ok := env.vars[k]; !ok {
			env.vars[k] = v
		}
	}
	for k, v := range fr.params {
		if _, ok := env.vars[k]; !ok {
			env.vars[k] = v
		}
	}
}

func instrIndex(in ssa.Instruction) int {
	for i, x := range in.Block().Instrs {
		if x == in {
			return i
		}
	}
	return -1
}

func isInstrValue(v ssa.Value) bool {
	_, ok := v.(ssa.Instruction)
	return ok
}

// enterLoop: assert invariants on entry edges, havoc, assume invariants.
func (fr *frame) enterLoop(h *ssa.BasicBlock, li *loopInfo, cur *state) {
	fr.evalBlock = h
	fc := fr.fc
	sc := fc.sc
	u := fc.e.u
	spec := li.spec
	li.entry = cur.clone()
	// 1. establish invariants on each forward edge
	for i, p := range h.Preds {
		if h.Dominates(p) {
			continue
		}
		es, ok := fr.edges[[2]int{p.Index, h.Index}]
		if !ok {
			continue
		}
		// bind phis for this edge
		for _, in := range h.Instrs {
			phi, ok := in.(*ssa.Phi)
			if !ok {
				break
			}
			fr.regs[phi] = fr.val(phi.Edges[i])
		}
		if spec != nil {
			env := fr.specEnv(es, fr.old)
			env.entry = li.entry
			for k, v := range fr.loopVars(h) {
				env.vars[k] = v
			}
			for j, inv := range spec.Invariants {
				label := inv.Label
				if label == "" {
					label = fmt.Sprintf("i%d", j+1)
				}
				fr.oblige(es, "inv", fmt.Sprintf("loop%d.%s.init", li.ordinal, label), loopPos(h), env.evalBool(inv.Expr, inv.Src), inv.Src)
			}
			for j, en := range spec.Entries {
				label := en.Label
				if label == "" {
					label = fmt.Sprintf("n%d", j+1)
				}
				fr.oblige(es, "inv", fmt.Sprintf("loop%d.%s.entry", li.ordinal, label), loopPos(h), env.evalBool(en.Expr, en.Src), en.Src)
			}
		}
	}
	if li.outer != nil {
		top := fr.topFrame()
		for i, p := range h.Preds {
			if h.Dominates(p) {
				continue
			}
			es, ok := fr.edges[[2]int{p.Index, h.Index}]
			if !ok {
				continue
			}
			_ = i
			env := top.specEnv(es, top.old)
			env.entry = li.entry
			fr.addCalleeLoopVars(env, h)
			for j, inv := range li.outer.Invariants {
				label := inv.Label
				if label == "" {
					label = fmt.Sprintf("o%d", j+1)
				}
				fr.oblige(es, "inv", fmt.Sprintf("loop%d.%s.init", li.ordinal, label), loopPos(h), env.evalBool(inv.Expr, inv.Src), inv.Src)
			}
		}
	}
	// 2. havoc phis and written heap
	for _, in := range h.Instrs {
		phi, ok := in.(*ssa.Phi)
		if !ok {
			break
		}
		srt := u.sortOf(phi.Type())
		v := sc.declare("lp_"+phi.Comment, srt)
		fr.regs[phi] = v
		fr.noEsc = true
		fr.typeInv(cur, v, srt, phi.Type(), false)
		fr.noEsc = false
		if srt == "Int" {
			// inferred invariant of a counter: a variable that every path round the loop leaves unchanged or adds a
			// non-negative constant to never falls below its value on entry (and symmetrically); integers are
			// mathematical (A1), so this holds without a check
			if dir := monotone(phi, h); dir != 0 {
				var bounds []string
				for i, p := range h.Preds {
					if h.Dominates(p) {
						continue
					}
					if _, ok := fr.edges[[2]int{p.Index, h.Index}]; !ok {
						continue
					}
					ev := fr.val(phi.Edges[i])
					if dir > 0 {
						bounds = append(bounds, fmt.Sprintf("(>= %s %s)", v, ev))
					} else {
						bounds = append(bounds, fmt.Sprintf("(<= %s %s)", v, ev))
					}
				}
				if len(bounds) == 1 {
					sc.assume(implies(cur.reach, bounds[0]))
				} else if len(bounds) > 1 {
					sc.assume(implies(cur.reach, "(or "+strings.Join(bounds, " ")+")"))
				}
			}
		}
		if phi.Comment == "rangeindex" {
			// built-in invariant of the compiler-generated range counter (starts at -1, only incremented)
			sc.assume(implies(cur.reach, fmt.Sprintf("(>= %s (- 1))", v)))
		}
	}
	var ks []string
	for k := range li.writes {
		ks = append(ks, k)
	}
	// site-specific keys present in the state whose base key is written
	for k := range cur.heap {
		if i := strings.Index(k, "@"); i >= 0 && (li.writes[k[:i]] || li.writes[k[:i]+"#FRESH"] || li.writes[k[:i]+"#P0"] || li.writes[k[:i]+"#P1"]) {
			// callees cannot reach cells of non-escaping locals (they have site-specific keys); such a key
			// changes in the loop only through a direct store, or through closure / inlined code
			if li.siteWrites[k] || li.closures || li.siteArgs[k[i:]] || !fr.top {
				ks = append(ks, k)
			}
		}
	}
	{
		// keys written in the loop only at objects the loop itself allocates (#FRESH effects): havocked, but every
		// object that existed when the loop was entered keeps its value
		plainW := map[string]bool{}
		for _, k := range ks {
			if !strings.Contains(k, "#") {
				plainW[k] = true
			}
		}
		var ks2, freshOnly []string
		for _, k := range ks {
			if strings.HasSuffix(k, "#FRESHBASE") {
				b := stripBase(k)
				only := !plainW[b]
				for _, k2 := range ks {
					if k2 != k && stripBase(k2) == b && !strings.HasSuffix(k2, "#FRESH") {
						only = false
					}
				}
				if only && strings.HasPrefix(b, "F|") {
					freshOnly = append(freshOnly, b)
					continue
				}
			}
			ks2 = append(ks2, k)
		}
		ks = ks2
		sort.Strings(freshOnly)
		for _, b := range freshOnly {
			oldH := fc.hget(cur, b)
			fc.havoc(cur, b)
			nw := cur.heap[b]
			r := sc.fresh("r")
			sc.assume(fmt.Sprintf("(forall ((%s Int)) (! (=> (< %s %s) (= (select %s %s) (select %s %s))) :pattern ((select %s %s))))", r, r, cur.alloc, nw, r, oldH, r, nw, r))
		}
		whole, pts := resolveBased(ks, func(j int) string {
			if j < len(fr.fn.Params) {
				if t, ok := fr.regs[fr.fn.Params[j]]; ok {
					return t
				}
			}
			return ""
		})
		fc.havocKeys(cur, whole)
		for text := range fc.calledRefs {
			// only a call inside the loop can raise its flag there
			inLoop := false
			for b := range li.blocks {
				for _, in := range b.Instrs {
					if ci, ok := in.(ssa.CallInstruction); ok && matchCall(text, fr.anchorText(ci.Pos(), "callfull")) {
						inLoop = true
					}
				}
			}
			if !inLoop {
				continue
			}
			k := calledKey(text)
			was := fc.hget(cur, k)
			now := sc.declare("called", "Bool")
			sc.assume(implies(was, now))
			cur.heap[k] = now
		}
		var pks []string
		for k := range pts {
			pks = append(pks, k)
		}
		sort.Strings(pks)
		for _, k := range pks {
			done := map[string]bool{}
			for _, ref := range pts[k] {
				if !done[ref] {
					done[ref] = true
					fc.pointHavoc(cur, k, ref)
				}
			}
		}
	}
	oldAlloc := cur.alloc
	cur.alloc = sc.declare("alloc", "Int")
	sc.assume(fmt.Sprintf("(>= %s %s)", cur.alloc, oldAlloc))
	// 3. assume invariants
	li.hvars = fr.loopVars(h)
	li.head = cur.clone()
	if li.outer != nil {
		top := fr.topFrame()
		env := top.specEnv(cur, top.old)
		env.entry = li.entry
		fr.addCalleeLoopVars(env, h)
		for _, inv := range li.outer.Invariants {
			sc.assume(implies(cur.reach, env.evalBool(inv.Expr, inv.Src)))
		}
	}
	if spec != nil {
		env := fr.specEnv(cur, fr.old)
		env.entry = li.entry
		for k, v := range li.hvars {
			env.vars[k] = v
		}
		for _, inv := range spec.Invariants {
			sc.assume(implies(cur.reach, env.evalBool(inv.Expr, inv.Src)))
		}
		if spec.Decreases != nil {
			tv := env.eval(spec.Decreases.Expr)
			li.variant = sc.define("variant", "Int", tv.T)
		}
	}
}

// backEdge: assert invariant preservation and variant decrease along edge p->h.
func (fr *frame) backEdge(p *ssa.BasicBlock, h *ssa.BasicBlock, es *state) {
	fr.evalBlock = p
	li := fr.loops[h]
	if li == nil {
		return
	}
	idx := -1
	for i, q := range h.Preds {
		if q == p {
			idx = i
		}
	}
	saved := map[*ssa.Phi]string{}
	for _, in := range h.Instrs {
		phi, ok := in.(*ssa.Phi)
		if !ok {
			break
		}
		saved[phi] = fr.regs[phi]
	}
	newv := map[*ssa.Phi]string{}
	for phi := range saved {
		newv[phi] = fr.val(phi.Edges[idx])
	}
	for phi, v := range newv {
		fr.regs[phi] = v
	}
	if li.spec != nil {
		env := fr.specEnv(es, fr.old)
		env.entry = li.entry
		for k, v := range li.hvars {
			env.vars[k] = v
		}
		for _, in := range h.Instrs {
			phi, ok := in.(*ssa.Phi)
			if !ok {
				break
			}
			if phi.Comment != "" {
				env.vars[phi.Comment] = TV{T: fr.regs[phi], Sort: fr.fc.e.u.sortOf(phi.Type()), Typ: phi.Type()}
			}
		}
		for j, inv := range li.spec.Invariants {
			label := inv.Label
			if label == "" {
				label = fmt.Sprintf("i%d", j+1)
			}
			fr.oblige(es, "inv", fmt.Sprintf("loop%d.%s.step", li.ordinal, label), loopPos(h), env.evalBool(inv.Expr, inv.Src), inv.Src)
		}
		if len(li.spec.Steps) > 0 {
			env.prev = li.head
			env.prevVars = map[string]TV{}
			for phi, v := range saved {
				if phi.Comment != "" {
					env.prevVars[phi.Comment] = TV{T: v, Sort: fr.fc.e.u.sortOf(phi.Type()), Typ: phi.Type()}
				}
			}
			for k, v := range fr.localsAt(p) {
				if _, ok := env.vars[k]; !ok {
					env.vars[k] = v
				}
			}
			for j, sp := range li.spec.Steps {
				label := sp.Label
				if label == "" {
					label = fmt.Sprintf("s%d", j+1)
				}
				fr.oblige(es, "step", fmt.Sprintf("loop%d.%s", li.ordinal, label), loopPos(h), env.evalBool(sp.Expr, sp.Src), sp.Src)
			}
		}
		if li.spec.Decreases != nil {
			tv := env.eval(li.spec.Decreases.Expr)
			cond := fmt.Sprintf("(and (< %s %s) (>= %s 0))", tv.T, li.variant, li.variant)
			fr.oblige(es, "dec", fmt.Sprintf("loop%d", li.ordinal), loopPos(h), cond, "decreases "+li.spec.Decreases.Src)
		}
	}
	if li.outer != nil {
		top := fr.topFrame()
		env := top.specEnv(es, top.old)
		env.entry = li.entry
		fr.addCalleeLoopVars(env, h)
		for j, inv := range li.outer.Invariants {
			label := inv.Label
			if label == "" {
				label = fmt.Sprintf("o%d", j+1)
			}
			fr.oblige(es, "inv", fmt.Sprintf("loop%d.%s.step", li.ordinal, label), loopPos(h), env.evalBool(inv.Expr, inv.Src), inv.Src)
		}
	}
	for phi, v := range saved {
		fr.regs[phi] = v
	}
}

func (fr *frame) topFrame() *frame {
	f := fr
	for !f.top && f.parent != nil {
		f = f.parent
	}
	return f
}

// ---------------------------------------------------------------------------
// Values

func (fr *frame) val(v ssa.Value) string {
	if t, ok := fr.regs[v]; ok {
		return t
	}
	u := fr.fc.e.u
	switch vv := v.(type) {
	case *ssa.Const:
		return fr.constVal(vv)
	case *ssa.Function:
		return u.fnID(fr.fc.e.keyOf(vv))
	case *ssa.Global:
		// address of a global: represented by a fixed id; loads go through X| keys
		return u.fnID("global:" + vv.String())
	case *ssa.Builtin:
		return "0"
	case *ssa.FreeVar:
		if fr.bindFr != nil {
			for i, fv := range fr.fn.FreeVars {
				if fv == vv {
					return fr.bindFr.val(fr.freeBind[i])
				}
			}
		}
	}
	// unknown: fresh
	srt := u.sortOf(v.Type())
	t := fr.fc.sc.declare("unk_"+v.Name(), srt)
	fr.regs[v] = t
	fr.fc.abstract("value %s (%T) not modelled", v.Name(), v)
	return t
}

func (fr *frame) constVal(c *ssa.Const) string {
	u := fr.fc.e.u
	srt := u.sortOf(c.Type())
	if c.Value == nil {
		return u.zero(srt)
	}
	switch c.Value.Kind() {
	case constant.Bool:
		if constant.BoolVal(c.Value) {
			return "true"
		}
		return "false"
	case constant.String:
		return u.lit(constant.StringVal(c.Value))
	case constant.Int:
		if srt == "Real" {
			f, _ := constant.Float64Val(c.Value)
			return realLit(f)
		}
		n, ok := constant.Int64Val(c.Value)
		if !ok {
			un, _ := constant.Uint64Val(c.Value)
			return fmt.Sprint(un)
		}
		return smtInt(n)
	case constant.Float:
		f, _ := constant.Float64Val(c.Value)
		if srt == "Int" {
			return smtInt(int64(f))
		}
		return realLit(f)
	}
	return u.zero(srt)
}

func realLit(f float64) string {
	s := fmt.Sprintf("%f", f)
	if f < 0 {
		return "(- " + s[1:] + ")"
	}
	return s
}

// litOf returns the Go string if v is a string constant.
func litOf(v ssa.Value) (string, bool) {
	if c, ok := v.(*ssa.Const); ok && c.Value != nil && c.Value.Kind() == constant.String {
		return constant.StringVal(c.Value), true
	}
	return "", false
}

// strEq builds equality between two strings; literal sides are expanded exactly.
func (fc *fnCtx) strEq(a, b string, alit, blit *string) string {
	sc := fc.sc
	if alit != nil && blit != nil {
		if *alit == *blit {
			return "true"
		}
		return "false"
	}
	if blit == nil && alit != nil {
		a, b = b, a
		blit = alit
	}
	if blit != nil {
		parts := []string{fmt.Sprintf("(= (slen %s) %d)", a, len(*blit))}
		for i := 0; i < len(*blit); i++ {
			parts = append(parts, fmt.Sprintf("(= (sat %s %d) %d)", a, i, (*blit)[i]))
		}
		exact := and(parts...)
		// link canonical keys with content
		sc.assume(fmt.Sprintf("(= (streq %s %s) %s)", a, fc.e.u.lit(*blit), exact))
		return exact
	}
	sc.assume(fmt.Sprintf("(=> (streq %s %s) (= (slen %s) (slen %s)))", a, b, a, b))
	sc.assume(fmt.Sprintf("(=> (= %s %s) (streq %s %s))", a, b, a, b))
	return fmt.Sprintf("(streq %s %s)", a, b)
}

// ---------------------------------------------------------------------------
// Locations

func (fr *frame) allocSite(a *ssa.Alloc) string {
	ok, seen := fr.siteOK[a]
	if !seen {
		ok = true
		if a.Referrers() != nil {
			for _, r := range *a.Referrers() {
				switch rr := r.(type) {
				case *ssa.UnOp, *ssa.DebugRef:
				case *ssa.Store:
					if rr.Val == a {
						ok = false
					}
				case *ssa.FieldAddr:
					// the derived address must itself only be loaded/stored
					if rr.Referrers() != nil {
						for _, r2 := range *rr.Referrers() {
							switch r3 := r2.(type) {
							case *ssa.UnOp, *ssa.DebugRef, *ssa.FieldAddr:
							case *ssa.Store:
								if r3.Val == rr {
									ok = false
								}
							default:
								ok = false
							}
						}
					}
				case *ssa.MakeClosure:
					// captured by a closure defined here: the closure's accesses resolve to the same site
				default:
					ok = false
				}
			}
		}
		fr.siteOK[a] = ok
	}
	if !ok {
		return ""
	}
	name := a.Comment
	if name == "" {
		name = a.Name()
	}
	return "@" + sanitize(fr.fc.e.keyOf(a.Parent())+"."+name+"."+a.Name())
}

// siteOf resolves the allocation site suffix of a pointer value (through free variables).
func (fr *frame) siteOf(v ssa.Value) string {
	switch vv := v.(type) {
	case *ssa.Alloc:
		return fr.allocSite(vv)
	case *ssa.FreeVar:
		if fr.bindFr != nil {
			for i, fv := range fr.fn.FreeVars {
				if fv == vv {
					return fr.bindFr.siteOf(fr.freeBind[i])
				}
			}
		}
	}
	return ""
}

func (fr *frame) fieldLoc(fa *ssa.FieldAddr, st *state) *Loc {
	u := fr.fc.e.u
	pt := fa.X.Type().Underlying().(*types.Pointer)
	if base, ok := fr.locs[fa.X]; ok && base != nil {
		// interior pointer into a datatype value
		si := u.structInfoOf(pt.Elem())
		if si == nil {
			return nil
		}
		l := *base
		l.path = append(append([]pathEl{}, base.path...), pathEl{si, fa.Field})
		return &l
	}
	if u.structInfoOf(pt.Elem()) == nil {
		return nil
	}
	key, srt, _ := u.fieldKey(pt.Elem(), fa.Field)
	key += fr.siteOf(fa.X)
	return &Loc{key: key, sort: srt, idx: []string{fr.val(fa.X)}}
}

func (fr *frame) loadLoc(st *state, l *Loc) string {
	fc := fr.fc
	var t string
	if l.plain {
		t = fc.hget(st, l.key)
	} else {
		t = fc.hget(st, l.key)
		for _, ix := range l.idx {
			t = app("select", t, ix)
		}
	}
	for _, pe := range l.path {
		t = app(pe.si.fields[pe.fld], t)
	}
	return t
}

func (fr *frame) storeLoc(st *state, l *Loc, v string) {
	fc := fr.fc
	// rebuild along the path
	root := fc.hget(st, l.key)
	var cur string
	if l.plain {
		cur = root
	} else {
		cur = root
		for _, ix := range l.idx {
			cur = app("select", cur, ix)
		}
	}
	newRoot := rebuild(cur, l.path, v)
	if l.plain {
		fc.hset(st, l.key, newRoot)
		return
	}
	switch len(l.idx) {
	case 1:
		fc.hset(st, l.key, app("store", root, l.idx[0], newRoot))
	case 2:
		inner := app("store", app("select", root, l.idx[0]), l.idx[1], newRoot)
		fc.hset(st, l.key, app("store", root, l.idx[0], inner))
	}
}

func rebuild(cur string, path []pathEl, v string) string {
	if len(path) == 0 {
		return v
	}
	pe := path[0]
	args := make([]string, len(pe.si.fields))
	for i, acc := range pe.si.fields {
		if i == pe.fld {
			args[i] = rebuild(app(acc, cur), path[1:], v)
		} else {
			args[i] = app(acc, cur)
		}
	}
	return app(pe.si.ctor, args...)
}

// loadStruct reads a whole struct value from the per-field heap arrays.
func (fr *frame) loadStruct(st *state, ref string, t types.Type, site string) string {
	u := fr.fc.e.u
	si := u.structInfoOf(t)
	args := make([]string, len(si.fields))
	for i := range si.fields {
		key, _, _ := u.fieldKey(t, i)
		args[i] = app("select", fr.fc.hget(st, key+site), ref)
	}
	return app(si.ctor, args...)
}

func (fr *frame) storeStruct(st *state, ref string, t types.Type, site string, v string) {
	u := fr.fc.e.u
	si := u.structInfoOf(t)
	for i, acc := range si.fields {
		key, _, _ := u.fieldKey(t, i)
		key += site
		fr.fc.hset(st, key, app("store", fr.fc.hget(st, key), ref, app(acc, v)))
	}
}

// anchorText returns normalised source text of the smallest expression at pos of the wanted kind.
func (fr *frame) anchorText(pos token.Pos, want string) string {
	e := fr.fc.e
	if !pos.IsValid() {
		return ""
	}
	p := e.fset.Position(pos)
	f := e.files[p.Filename]
	if f == nil {
		return ""
	}
	path, _ := astutil.PathEnclosingInterval(f, pos, pos)
	for _, n := range path {
		switch nn := n.(type) {
		case *ast.IndexExpr:
			if want == "idx" {
				return e.sourceText(nn.Pos(), nn.End())
			}
		case *ast.SliceExpr:
			if want == "slice" {
				return e.sourceText(nn.Pos(), nn.End())
			}
		case *ast.BinaryExpr:
			if want == "div" && (nn.Op == token.QUO || nn.Op == token.REM) {
				return e.sourceText(nn.Pos(), nn.End())
			}
			if want == "binop" {
				return e.sourceText(nn.Pos(), nn.End())
			}
		case *ast.CallExpr:
			if want == "call" {
				return e.sourceText(nn.Fun.Pos(), nn.Fun.End())
			}
			if want == "callfull" {
				return e.sourceText(nn.Pos(), nn.End())
			}
		case *ast.SelectorExpr:
			if want == "sel" {
				return e.sourceText(nn.Pos(), nn.End())
			}
		case *ast.TypeAssertExpr:
			if want == "assert-type" {
				return e.sourceText(nn.Pos(), nn.End())
			}
		case *ast.CaseClause:
			if want == "case" {
				if len(nn.List) == 0 {
					return "default"
				}
				return e.sourceText(nn.List[0].Pos(), nn.List[len(nn.List)-1].End())
			}
		case ast.Stmt:
			if want == "stmt" {
				return e.sourceText(nn.Pos(), nn.End())
			}
		}
	}
	return ""
}

// genLemmas produces one obligation per lemma of the contract files.
func (e *Engine) genLemmas() *fnCtx {
	fc := &fnCtx{e: e, key: "speclib", c: &FuncContract{}, sc: &Script{}, heap0: map[string]string{}, unmodelled: map[string]bool{},
		used: map[string]bool{}, names: map[string]int{}, inputs: map[string]string{}}
	fc.emitAxioms()
	for _, ax := range e.contracts.Axioms {
		if !ax.Lemma {
			continue
		}
		env := &specEnv{fc: fc, vars: map[string]TV{}, pkg: ax.Pkg}
		t := env.evalBool(ax.Expr, ax.Src)
		o := &Obligation{Name: "speclib#lemma:" + ax.Name, Func: "speclib", Kind: "lemma", Anchor: ax.Name, Prefix: len(fc.sc.lines),
			Reach: "true", Cond: t, Desc: ax.Src, script: fc.sc, Inputs: fc.inputs}
		fc.obls = append(fc.obls, o)
	}
	return fc
}

// fieldInvOf returns the "pkg.Type.field" name if the heap key is a field with a declared invariant.
func (fc *fnCtx) fieldInvOf(key string) (string, bool) {
	if !strings.HasPrefix(key, "F|") {
		return "", false
	}
	k := strings.SplitN(key, "@", 2)[0]
	parts := strings.Split(k, "|")
	if len(parts) < 3 {
		return "", false
	}
	if fc.e.contracts.FieldInv[parts[1]] {
		return parts[1], true
	}
	return "", false
}

func nonNilTerm(v, sort string) string {
	if strings.HasPrefix(sort, "S_") {
		// a struct value: its first field (wrappers around a single pointer, e.g. macroDef{*MacroNode})
		return fmt.Sprintf("(not (= (%s %s) 0))", structFirstField[sort], v)
	}
	switch sort {
	case "Val":
		return fmt.Sprintf("(not (= (vtag %s) 0))", v)
	case "Slice":
		return fmt.Sprintf("(not (= (sref %s) 0))", v)
	}
	return fmt.Sprintf("(not (= %s 0))", v)
}

// markEscaped records that a slice or map value has become reachable from the heap / a callee.
func (fr *frame) markEscaped(st *state, v string, t types.Type) {
	if t == nil {
		return
	}
	fc := fr.fc
	switch t.Underlying().(type) {
	case *types.Slice:
		fc.hset(st, "ESC", app("store", fc.hget(st, "ESC"), app("sref", v), "true"))
	case *types.Map:
		fc.hset(st, "ESC", app("store", fc.hget(st, "ESC"), v, "true"))
	}
}

// havocFramed havocs heap keys after a call; arrays and maps that were allocated before the call and
// have not escaped (ESC false) are preserved: a callee can only reach what has been stored in the heap
// or passed to it.
func (fc *fnCtx) havocFramed(st *state, pre *state, keys []string) {
	fc.havocFramedArgs(st, pre, keys, nil)
}

func (fc *fnCtx) havocFramedArgs(st *state, pre *state, keys []string, argOf func(int) string) {
	sc := fc.sc
	keys, pts := resolveBased(keys, argOf)
	var pks []string
	for k := range pts {
		pks = append(pks, k)
	}
	sort.Strings(pks)
	for _, k := range pks {
		done := map[string]bool{}
		for _, ref := range pts[k] {
			if !done[ref] {
				done[ref] = true
				fc.pointHavoc(st, k, ref)
			}
		}
	}
	seen := map[string]bool{}
	for _, k := range keys {
		if k == "*" {
			fc.havoc(st, "*")
			return
		}
		seen[k] = true
	}
	var ks []string
	for k := range seen {
		ks = append(ks, k)
	}
	sort.Strings(ks)
	esc := fc.hget(pre, "ESC")
	for _, k := range ks {
		if k == "EXT" || k == "CH" || k == "ESC" || strings.HasPrefix(k, "PARAM:") {
			continue
		}
		old := fc.hget(pre, k)
		fc.havoc(st, k)
		if (strings.HasPrefix(k, "A|") || strings.HasPrefix(k, "MD|") || strings.HasPrefix(k, "MV|")) && fc.localKeys()[k] {
			nw := st.heap[k]
			r := sc.fresh("r")
			sc.assume(fmt.Sprintf("(forall ((%s Int)) (! (=> (and (< 0 %s) (< %s %s) (not (select %s %s))) (= (select %s %s) (select %s %s))) :pattern ((select %s %s))))", r, r, r, pre.alloc, esc, r, nw, r, old, r, nw, r))
		}
	}
}

// localKeys: heap keys of arrays / maps this verification unit allocates itself (statically): only for
// those is the "unescaped objects survive calls" frame worth stating.
func (fc *fnCtx) localKeys() map[string]bool {
	if fc.lkeys != nil {
		return fc.lkeys
	}
	fc.lkeys = map[string]bool{}
	var visit func(f *ssa.Function)
	seen := map[*ssa.Function]bool{}
	visit = func(f *ssa.Function) {
		if f == nil || seen[f] {
			return
		}
		seen[f] = true
		u := fc.e.u
		for _, b := range f.Blocks {
			for _, in := range b.Instrs {
				switch v := in.(type) {
				case *ssa.MakeSlice:
					fc.lkeys[u.arrKey(v.Type().Underlying().(*types.Slice).Elem())] = true
				case *ssa.MakeMap:
					md, mv, _, _ := fc.e.mapKeys(v.Type())
					fc.lkeys[md], fc.lkeys[mv] = true, true
				case *ssa.Alloc:
					if at, ok := v.Type().Underlying().(*types.Pointer).Elem().Underlying().(*types.Array); ok {
						fc.lkeys[u.arrKey(at.Elem())] = true
					}
				case *ssa.Call:
					// slices / maps returned by calls may be fresh (a contract can say local(result))
					if rt := v.Type(); rt != nil {
						var rts []types.Type
						if tup, ok := rt.(*types.Tuple); ok {
							for i := 0; i < tup.Len(); i++ {
								rts = append(rts, tup.At(i).Type())
							}
						} else {
							rts = append(rts, rt)
						}
						for _, t := range rts {
							switch tt := t.Underlying().(type) {
							case *types.Slice:
								fc.lkeys[u.arrKey(tt.Elem())] = true
							case *types.Map:
								md, mv, _, _ := fc.e.mapKeys(t)
								fc.lkeys[md], fc.lkeys[mv] = true, true
							}
						}
					}
					if b, ok := v.Call.Value.(*ssa.Builtin); ok && b.Name() == "append" {
						if st, ok := v.Type().Underlying().(*types.Slice); ok {
							fc.lkeys[u.arrKey(st.Elem())] = true
						}
					}
					if g := v.Call.StaticCallee(); g != nil && fc.e.isRepoFn(g) {
						if ct := fc.e.contracts.Funcs[fc.e.keyOf(g)]; (ct != nil && ct.Inline) || g.Parent() != nil {
							visit(g)
						}
					}
				case *ssa.MakeClosure:
					visit(v.Fn.(*ssa.Function))
				}
			}
		}
	}
	visit(fc.fn)
	return fc.lkeys
}

// computeAncestors: for every block of the verification unit, the blocks that can reach it along
// forward edges (the loop-cut CFG is a DAG; a back edge's source keeps its own tag).
func (fc *fnCtx) computeAncestors(fn *ssa.Function) {
	fc.ancestors = map[int]map[int]bool{}
	var visit func(b *ssa.BasicBlock) map[int]bool
	visiting := map[int]bool{}
	visit = func(b *ssa.BasicBlock) map[int]bool {
		if a, ok := fc.ancestors[b.Index]; ok {
			return a
		}
		if visiting[b.Index] {
			return map[int]bool{}
		}
		visiting[b.Index] = true
		a := map[int]bool{b.Index: true}
		for _, p := range b.Preds {
			if b.Dominates(p) {
				continue // back edge
			}
			for k := range visit(p) {
				a[k] = true
			}
		}
		fc.ancestors[b.Index] = a
		return a
	}
	for _, b := range fn.Blocks {
		visit(b)
	}
}

// structFirstField: accessor of the first field of struct sorts (filled when sorts are built).
var structFirstField = map[string]string{}

type callErr struct {
	text  string
	err   string
	reach string
	blk   int
}


// monotone reports +1 if every value the loop-head phi receives on a back edge is the phi itself plus non-negative
// constants (through the phis of inner joins and loops), -1 for non-positive constants, 0 otherwise.
func monotone(phi *ssa.Phi, h *ssa.BasicBlock) int {
	if b, ok := phi.Type().Underlying().(*types.Basic); !ok || b.Info()&types.IsInteger == 0 {
		return 0
	}
	check := func(dir int) bool {
		seen := map[ssa.Value]bool{}
		var ge func(v ssa.Value) bool
		ge = func(v ssa.Value) bool {
			if v == phi {
				return true
			}
			if seen[v] {
				return true // a cycle through an inner loop's counter: by induction
			}
			switch x := v.(type) {
			case *ssa.Phi:
				if !h.Dominates(x.Block()) || x.Block() == h {
					return false
				}
				seen[v] = true
				for _, e := range x.Edges {
					if !ge(e) {
						return false
					}
				}
				return true
			case *ssa.BinOp:
				c, ok := x.Y.(*ssa.Const)
				if !ok || c.Value == nil || (x.Op != token.ADD && x.Op != token.SUB) {
					return false
				}
				n, exact := constant.Int64Val(constant.ToInt(c.Value))
				if !exact {
					return false
				}
				if x.Op == token.SUB {
					n = -n
				}
				if (dir > 0 && n < 0) || (dir < 0 && n > 0) {
					return false
				}
				return ge(x.X)
			}
			return false
		}
		any := false
		for i, p := range h.Preds {
			if !h.Dominates(p) {
				continue
			}
			any = true
			if !ge(phi.Edges[i]) {
				return false
			}
		}
		return any
	}
	if check(1) {
		return 1
	}
	if check(-1) {
		return -1
	}
	return 0
}


var calledRe = regexp.MustCompile(`called\("((?:[^"\\]|\\.)*)"\)`)

func calledKey(text string) string { return "X|called:" + normText(text) + "|Bool" }

// normText: source text without white space (the form anchorText returns).
func normText(s string) string { return strings.Join(strings.Fields(s), "") }

// allSources: the source text of every clause of the contract.
func (c *FuncContract) allSources() []string {
	var out []string
	for _, l := range [][]Clause{c.Requires, c.Ensures, c.Asserts} {
		for _, cl := range l {
			out = append(out, cl.Src)
		}
	}
	for _, m := range []map[string][]Clause{c.At, c.After} {
		for _, l := range m {
			for _, cl := range l {
				out = append(out, cl.Src)
			}
		}
	}
	for _, lp := range c.Loops {
		for _, cl := range lp.Invariants {
			out = append(out, cl.Src)
		}
	}
	return out
}


// lexObject resolves a name at the position of the clause under evaluation (fr.lexPos) by Go's scoping rules; nil
// when there is no position or no such variable.
func (fr *frame) lexObject(name string) types.Object {
	if !fr.lexPos.IsValid() || fr.fn.Pkg == nil || fr.fn.Pkg.Pkg == nil {
		return nil
	}
	sc := fr.fn.Pkg.Pkg.Scope().Innermost(fr.lexPos)
	if sc == nil {
		return nil
	}
	_, obj := sc.LookupParent(name, fr.lexPos)
	if v, ok := obj.(*types.Var); ok && !v.IsField() && v.Parent() != fr.fn.Pkg.Pkg.Scope() && v.Parent() != types.Universe {
		return v
	}
	return nil
}


// inCase: the position lies in a switch arm whose case list has the given (normalised) text, at any nesting depth.
func (fr *frame) inCase(pos token.Pos, text string) bool {
	e := fr.fc.e
	if !pos.IsValid() {
		return false
	}
	f := e.files[e.fset.Position(pos).Filename]
	if f == nil {
		return false
	}
	path, _ := astutil.PathEnclosingInterval(f, pos, pos)
	for _, n := range path {
		if cc, ok := n.(*ast.CaseClause); ok {
			t := "default"
			if len(cc.List) > 0 {
				t = e.sourceText(cc.List[0].Pos(), cc.List[len(cc.List)-1].End())
			}
			if strings.Join(strings.Fields(t), "") == text {
				return true
			}
		}
	}
	return false
}
