package main

import (
	"fmt"
	"go/token"
	"go/types"
	"sort"
	"strings"

	"golang.org/x/tools/go/ssa"
)

const maxInlineDepth = 8

func (fr *frame) call(st *state, c *ssa.CallCommon, instr ssa.Instruction, pos token.Pos) []string {
	var args []string
	for _, a := range c.Args {
		args = append(args, fr.val(a))
	}
	return fr.callWithArgs(st, c, instr, pos, args)
}

func (fr *frame) resultSorts(sig *types.Signature) ([]string, []types.Type) {
	var ss []string
	var ts []types.Type
	for i := 0; i < sig.Results().Len(); i++ {
		t := sig.Results().At(i).Type()
		ss = append(ss, fr.fc.e.u.sortOf(t))
		ts = append(ts, t)
	}
	return ss, ts
}

func (fr *frame) freshResults(st *state, sig *types.Signature, name string) []string {
	ss, ts := fr.resultSorts(sig)
	var out []string
	for i, s := range ss {
		v := fr.fc.sc.declare("ret_"+name, s)
		// whether a returned slice or map is shared is not known (a contract may say local(result))
		fr.noEsc = true
		fr.typeInv(st, v, s, ts[i], false)
		fr.noEsc = false
		out = append(out, v)
	}
	return out
}

func (fr *frame) bumpAlloc(st *state) {
	old := st.alloc
	st.alloc = fr.fc.sc.declare("alloc", "Int")
	fr.fc.sc.assume(fmt.Sprintf("(>= %s %s)", st.alloc, old))
}

func (fr *frame) callWithArgs(st *state, c *ssa.CallCommon, instr ssa.Instruction, pos token.Pos, args []string) []string {
	// call-site assertions of the enclosing contract ("at" clauses), keyed by the call's source text
	text := fr.anchorText(pos, "callfull")
	if fr.top && len(fr.fc.c.Never) > 0 && instr != nil && text != "" {
		for pre, label := range fr.fc.c.Never {
			if strings.HasPrefix(text, pre) {
				if _, ok := fr.fc.c.At[text]; ok {
					continue
				}
				if _, ok := fr.fc.c.After[text]; ok {
					continue
				}
				if label == "" {
					label = "never"
				}
				fr.oblige(st, "at", text+"."+label, pos, "false", "the contract forbids a call of the form "+pre+"... in this function")
			}
		}
	}
	if len(fr.fc.c.At) > 0 && fr.top && instr != nil {
		// a key that ends in "(" names every call whose text starts with it; its clauses may mention the call's
		// arguments as arg0, arg1, ...
		for key, cls := range fr.fc.c.At {
			if !strings.HasSuffix(key, "(") || !strings.HasPrefix(text, key) {
				continue
			}
			if fr.fc.atHit == nil {
				fr.fc.atHit = map[string]bool{}
			}
			fr.fc.atHit[key] = true
			env := fr.specEnv(st, fr.old)
			fr.lexPos = pos
			env.vars = fr.shadowed(env.vars, instr.Block())
			fr.lexPos = token.NoPos
			fr.evalBlock = instr.Block()
			fr.evalPos = pos
			sig := c.Signature()
			off := 0
			if sig.Recv() != nil && !c.IsInvoke() {
				off = 1
			}
			for i := 0; i < sig.Params().Len() && i+off < len(args); i++ {
				pt := sig.Params().At(i).Type()
				env.vars[fmt.Sprintf("arg%d", i)] = TV{T: args[i+off], Sort: fr.fc.e.u.sortOf(pt), Typ: pt}
			}
			for i, cl := range cls {
				label := cl.Label
				if label == "" {
					label = fmt.Sprintf("c%d", i+1)
				}
				if t, ok := fr.evalClause(env, cl.Expr, cl.Src); ok {
					fr.oblige(st, "at", text+"."+label, pos, t, cl.Src)
				} else {
					fr.oblige(st, "at", text+"."+label+".attach", pos, "false", "the clause "+cl.Src+" names something that is not in scope at this call: it cannot be checked")
				}
			}
		}
	}
	if len(fr.fc.c.At) > 0 {
		if cls, ok := fr.fc.c.At[text]; ok && instr != nil {
			if fr.fc.atHit == nil {
				fr.fc.atHit = map[string]bool{}
			}
			fr.fc.atHit[text] = true
			env := fr.specEnv(st, fr.old)
			fr.lexPos = pos
			env.vars = fr.shadowed(env.vars, instr.Block())
			fr.lexPos = token.NoPos
			fr.evalBlock = instr.Block()
			fr.evalPos = pos
			for i, cl := range cls {
				label := cl.Label
				if label == "" {
					label = fmt.Sprintf("c%d", i+1)
				}
				if t, ok := fr.evalClause(env, cl.Expr, cl.Src); ok {
					fr.oblige(st, "at", text+"."+label, pos, t, cl.Src)
				} else {
					fr.oblige(st, "at", text+"."+label+".attach", pos, "false", "the clause "+cl.Src+" names something that is not in scope at this call (renamed local?): it cannot be checked")
				}
			}
		}
	}
	res := fr.callWithArgs1(st, c, instr, pos, args)
	if fr.top && instr != nil {
		for ref := range fr.fc.calledRefs {
			if matchCall(ref, text) {
				st.heap[calledKey(ref)] = "true"
			}
		}
	}
	if cls, ok := fr.fc.c.After[text]; ok && instr != nil {
		if fr.fc.atHit == nil {
			fr.fc.atHit = map[string]bool{}
		}
		fr.fc.atHit["after:"+text] = true
		env := fr.specEnv(st, fr.old)
		fr.lexPos = pos
		env.vars = fr.shadowed(env.vars, instr.Block())
		fr.lexPos = token.NoPos
		sig := c.Signature()
		for i := 0; i < sig.Results().Len() && i < len(res); i++ {
			rt := sig.Results().At(i).Type()
			tv := TV{T: res[i], Sort: fr.fc.e.u.sortOf(rt), Typ: rt}
			env.vars[fmt.Sprintf("r%d", i)] = tv
			if i == 0 {
				env.vars["result"] = tv
			}
		}
		fr.evalBlock = instr.Block()
		for i, cl := range cls {
			label := cl.Label
			if label == "" {
				label = fmt.Sprintf("c%d", i+1)
			}
			if t, ok := fr.evalClause(env, cl.Expr, cl.Src); ok {
				fr.oblige(st, "at", text+".after."+label, pos, t, cl.Src)
			} else {
				fr.oblige(st, "at", text+".after."+label+".attach", pos, "false", "the clause "+cl.Src+" names something that is not in scope after this call (renamed local?): it cannot be checked")
			}
		}
	}
	if fr.top && (fr.fc.c.Propagates || fr.fc.c.OwnErrors) {
		sig := c.Signature()
		if n := sig.Results().Len(); n > 0 && isErrorType(sig.Results().At(n-1).Type()) && len(res) == n {
			skip := false
			for _, np := range fr.fc.c.NoProp {
				if strings.HasPrefix(text, np) {
					skip = true
				}
			}
			if fr.fc.c.OwnErrors && instr != nil && !isErrorConstructor(text) {
				fr.allCallErrs = append(fr.allCallErrs, callErr{text: text, err: res[n-1], reach: st.reach, blk: instr.Block().Index})
			}
			if !skip && instr != nil && fr.fc.c.Propagates {
				fr.callErrs = append(fr.callErrs, callErr{text: text, err: res[n-1], reach: st.reach, blk: instr.Block().Index})
			}
		}
	}
	return res
}

func (fr *frame) callWithArgs1(st *state, c *ssa.CallCommon, instr ssa.Instruction, pos token.Pos, args []string) []string {
	fr.curCall = c
	fc := fr.fc
	e := fc.e
	sig := c.Signature()
	if _, isBuiltin := c.Value.(*ssa.Builtin); !isBuiltin {
		for i, a := range c.Args {
			if i < len(args) {
				fr.markEscaped(st, args[i], a.Type())
			}
		}
	}
	if c.IsInvoke() {
		return fr.invoke(st, c, instr, pos, args)
	}
	switch cv := c.Value.(type) {
	case *ssa.Builtin:
		return fr.builtin(st, cv, c, instr, pos, args)
	case *ssa.Function:
		if e.isRepoFn(cv) {
			return fr.callRepo(st, cv, nil, c, pos, args)
		}
		// the address of a field handed to a function outside the repository (sync/atomic, fmt.Sscan, ...) may be
		// written through: for the frame of shared objects (fieldframe) it counts as a store
		for _, a := range c.Args {
			if fa, ok := a.(*ssa.FieldAddr); ok {
				if l, ok := fr.locs[fa]; ok && l != nil {
					fr.fieldFrame(st, l, pos)
				}
			}
		}
		return fr.external(st, cv, c, pos, args)
	case *ssa.MakeClosure:
		ci := fr.lookupClosure(cv)
		if ci != nil {
			return fr.callRepo(st, ci.fn, ci, c, pos, args)
		}
	}
	if ci := fr.lookupClosure(c.Value); ci != nil {
		return fr.callRepo(st, ci.fn, ci, c, pos, args)
	}
	// dynamic call through a function value
	return fr.dynamicCall(st, c, pos, args, sig)
}

func (fr *frame) lookupClosure(v ssa.Value) *closureInfo {
	for f := fr; f != nil; f = f.bindFr {
		if ci, ok := f.closures[v]; ok {
			return ci
		}
		if f.bindFr == nil {
			break
		}
	}
	// free variable bound to a closure value? not tracked
	return nil
}

// callRepo handles a call to a function with a body in the repository.
func (fr *frame) callRepo(st *state, g *ssa.Function, ci *closureInfo, c *ssa.CallCommon, pos token.Pos, args []string) []string {
	fc := fr.fc
	e := fc.e
	key := e.keyOf(g)
	ct := e.contracts.Funcs[key]
	inline := (ct != nil && ct.Inline) || ci != nil || fc.c.Inlines[key] || (ct == nil && autoInlinable(g))
	if inline && fr.depth < maxInlineDepth && !fr.recursive(g) {
		if ct != nil && len(ct.Requires) > 0 {
			// the preconditions of an expanded callee are still checked at the call
			vars := map[string]TV{"fn": {T: e.u.fnID(key), Sort: "Int"}}
			for i, p := range g.Params {
				if i < len(args) {
					vars[p.Name()] = TV{T: args[i], Sort: e.u.sortOf(p.Type()), Typ: p.Type()}
					vars[fmt.Sprintf("a%d", i)] = vars[p.Name()]
				}
			}
			env := &specEnv{fc: fc, fr: fr, vars: vars, st: st, old: st, pkg: shortPkg(fr.topFn().Pkg.Pkg.Path())}
			anchor := fr.anchorText(pos, "call")
			for i, rq := range ct.Requires {
				label := rq.Label
				if label == "" {
					label = fmt.Sprintf("r%d", i+1)
				}
				fr.oblige(st, "pre", anchor+"."+label, pos, env.evalBool(rq.Expr, rq.Src), "precondition of "+key+": "+rq.Src)
			}
		}
		return fr.inlineCall(st, g, ci, pos, args)
	}
	return fr.contractCall(st, g, ct, key, c, pos, args, nil)
}

func (fr *frame) recursive(g *ssa.Function) bool {
	for f := fr; f != nil; f = f.parent {
		if f.fn == g {
			return true
		}
	}
	return false
}

func (fr *frame) inlineCall(st *state, g *ssa.Function, ci *closureInfo, pos token.Pos, args []string) []string {
	fc := fr.fc
	sc := fc.sc
	child := fc.newFrame(g, fr)
	if ci != nil {
		child.bindFr = ci.frame
		child.freeBind = ci.bindings
	}
	child.bindParams(args)
	// closures passed as arguments stay known inside the inlined callee
	if cc := fr.curCall; cc != nil {
		for i, a := range cc.Args {
			av := a
			for {
				ct, ok := av.(*ssa.ChangeType)
				if !ok {
					break
				}
				av = ct.X
			}
			if ci2 := fr.lookupClosure(av); ci2 != nil && i < len(g.Params) {
				child.closures[g.Params[i]] = ci2
			}
			// an interior pointer (address of an embedded struct value) keeps its location in the expanded callee
			if l, ok := fr.locs[a]; ok && l != nil && len(l.path) > 0 && i < len(g.Params) {
				child.locs[g.Params[i]] = l
			}
		}
	}
	child.old = st.clone()
	entry := st.clone()
	child.run(entry, args)
	if len(child.retStates) == 0 {
		// callee never returns on this path
		st.reach = "false"
		return fr.freshResults(st, g.Signature, g.Name())
	}
	// merge return states
	var ins []*state
	for _, rr := range child.retStates {
		ins = append(ins, rr.st)
	}
	merged := fr.mergeStates(ins)
	n := g.Signature.Results().Len()
	res := make([]string, n)
	for i := 0; i < n; i++ {
		t := child.retStates[len(child.retStates)-1].results[i]
		for j := len(child.retStates) - 2; j >= 0; j-- {
			t = ite(child.retStates[j].st.reach, child.retStates[j].results[i], t)
		}
		res[i] = sc.define("inl_"+g.Name(), fc.e.u.sortOf(g.Signature.Results().At(i).Type()), t)
	}
	// closures returned by inlined functions are not tracked
	st.heap = merged.heap
	st.alloc = merged.alloc
	st.reach = merged.reach
	return res
}

func (fr *frame) mergeStates(ins []*state) *state {
	fc := fr.fc
	sc := fc.sc
	if len(ins) == 1 {
		return ins[0].clone()
	}
	res := &state{heap: map[string]string{}}
	var rs []string
	keys := map[string]bool{}
	for _, s := range ins {
		rs = append(rs, s.reach)
		for k := range s.heap {
			keys[k] = true
		}
	}
	res.reach = sc.define("reach_m", "Bool", or(rs...))
	var ks []string
	for k := range keys {
		ks = append(ks, k)
	}
	sort.Strings(ks)
	for _, k := range ks {
		t := fc.hget(ins[len(ins)-1], k)
		same := true
		for i := len(ins) - 2; i >= 0; i-- {
			ti := fc.hget(ins[i], k)
			if ti != t {
				same = false
			}
			t = ite(ins[i].reach, ti, t)
		}
		if same {
			res.heap[k] = fc.hget(ins[0], k)
		} else {
			res.heap[k] = sc.defineConst("hm_"+shortKey(k), heapSort(fc.e.u, k), t)
		}
	}
	t := ins[len(ins)-1].alloc
	for i := len(ins) - 2; i >= 0; i-- {
		t = ite(ins[i].reach, ins[i].alloc, t)
	}
	res.alloc = sc.define("alloc", "Int", t)
	return res
}

// contractCall: assert pre; havoc effects; assume post.
func (fr *frame) contractCall(st *state, g *ssa.Function, ct *FuncContract, key string, c *ssa.CallCommon, pos token.Pos, args []string, extraEffects []string) []string {
	fc := fr.fc
	sc := fc.sc
	e := fc.e
	anchor := fr.anchorText(pos, "call")
	if anchor == "" {
		anchor = g.Name()
	}
	vars := map[string]TV{"fn": {T: e.u.fnID(key), Sort: "Int"}}
	for i, p := range g.Params {
		if i < len(args) {
			vars[p.Name()] = TV{T: args[i], Sort: e.u.sortOf(p.Type()), Typ: p.Type()}
			vars[fmt.Sprintf("a%d", i)] = vars[p.Name()]
		}
	}
	pkg := ""
	if g.Pkg != nil {
		pkg = shortPkg(g.Pkg.Pkg.Path())
	} else if g.Parent() != nil {
		p := g
		for p.Parent() != nil {
			p = p.Parent()
		}
		pkg = shortPkg(p.Pkg.Pkg.Path())
	}
	if ct != nil {
		fc.used[key] = true
		env := &specEnv{fc: fc, fr: fr, vars: copyVars(vars), st: st, old: st, pkg: pkg}
		for i, rq := range ct.Requires {
			label := rq.Label
			if label == "" {
				label = fmt.Sprintf("r%d", i+1)
			}
			fr.oblige(st, "pre", anchor+"."+label, pos, env.evalBool(rq.Expr, rq.Src), "precondition of "+key+": "+rq.Src)
		}
	}
	pre := st.clone()
	// effects
	var eff []string
	if ct != nil && ct.HasMod {
		eff = append(eff, ct.Modifies...)
	} else if c != nil {
		eff = append(eff, e.callEffects(fr.fn, c)...)
	} else {
		eff = append(eff, e.effectList(g)...)
	}
	eff = append(eff, extraEffects...)
	// (callEffects has already expressed the callee's receiver-based effects in terms of this function's
	// own parameters)
	fc.havocFramedArgs(st, pre, eff, fr.ownParam)
	fr.bumpAlloc(st)
	res := fr.freshResults(st, g.Signature, g.Name())
	if ct != nil {
		env := &specEnv{fc: fc, fr: fr, vars: copyVars(vars), st: st, old: pre, pkg: pkg}
		rs := g.Signature.Results()
		for i := 0; i < rs.Len(); i++ {
			v := rs.At(i)
			tv := TV{T: res[i], Sort: e.u.sortOf(v.Type()), Typ: v.Type()}
			if v.Name() != "" && v.Name() != "_" {
				env.vars[v.Name()] = tv
			}
			env.vars[fmt.Sprintf("r%d", i)] = tv
			if rs.Len() == 1 || (i == 0 && !isErrorType(v.Type())) {
				if _, ok := env.vars["result"]; !ok {
					env.vars["result"] = tv
				}
			}
			if isErrorType(v.Type()) {
				if _, ok := env.vars["err"]; !ok {
					env.vars["err"] = tv
				}
			}
		}
		for _, en := range ct.Ensures {
			sc.assume(implies(st.reach, env.evalBool(en.Expr, en.Src)))
		}
		for _, en := range ct.Trusts {
			sc.assume(implies(st.reach, env.evalBool(en.Expr, en.Src)))
		}
	}
	return res
}

func copyVars(m map[string]TV) map[string]TV {
	o := make(map[string]TV, len(m))
	for k, v := range m {
		o[k] = v
	}
	return o
}

// invoke: interface method call.
func (fr *frame) invoke(st *state, c *ssa.CallCommon, instr ssa.Instruction, pos token.Pos, args []string) []string {
	fc := fr.fc
	e := fc.e
	recv := fr.val(c.Value)
	anchor := fr.anchorText(pos, "call")
	if fr.sweepOn() {
		fr.oblige(st, "nil", anchor, pos, fmt.Sprintf("(not (= (vtag %s) 0))", recv), "method call on nil interface")
		// a nil pointer inside a non-nil interface: calling a value-receiver method through it panics in the
		// call instruction itself (runtime wrapper), before any user code runs
		// (only for the value interfaces of package stick, through which arbitrary user values flow;
		// a typed nil Node, Expr, visitor, loader or writer is a caller error outside every property)
		if n, ok := types.Unalias(c.Value.Type()).(*types.Named); ok {
			switch qualName(n) {
			case "stick.Stringer", "stick.Number", "stick.Boolean", "stick.SafeValue":
				e.u.global("(declare-fun kindof (Int) Int)")
				fr.oblige(st, "nilrecv", anchor, pos, fmt.Sprintf("(not (and (= (kindof (vtag %s)) 22) (= (vpay %s) 0)))", recv, recv), "method call through a typed nil pointer")
			}
		}
	}
	// contract keyed by interface method: iface:pkg.Iface.Method
	var ikey string
	if n, ok := types.Unalias(c.Value.Type()).(*types.Named); ok {
		ikey = "iface:" + qualName(n) + "." + c.Method.Name()
	} else {
		ikey = "iface:" + c.Method.Name()
	}
	ct := e.contracts.Funcs[ikey]
	eff := e.callEffects(fr.fn, c)
	if ct != nil && ct.HasMod {
		eff = ct.Modifies
	}
	if ct != nil {
		fc.used[ikey] = true
	} else {
		fc.unmodelled[ikey] = true
	}
	sig := c.Signature()
	if ct == nil && !c.Method.Exported() && fr.depth < maxInlineDepth {
		if res, ok := fr.dispatchClosed(st, c, pos, recv, args, eff); ok {
			delete(fc.unmodelled, ikey)
			return res
		}
	}
	vars := map[string]TV{"recv": {T: recv, Sort: "Val", Typ: c.Value.Type()}}
	for i := 0; i < sig.Params().Len(); i++ {
		p := sig.Params().At(i)
		name := p.Name()
		if name == "" {
			name = fmt.Sprintf("a%d", i)
		}
		vars[name] = TV{T: args[i], Sort: e.u.sortOf(p.Type()), Typ: p.Type()}
		vars[fmt.Sprintf("a%d", i)] = vars[name]
	}
	return fr.specCall(st, ct, ikey, anchor, pos, vars, eff, sig)
}

// specCall applies a contract that is not attached to a repo function body.
func (fr *frame) specCall(st *state, ct *FuncContract, key, anchor string, pos token.Pos, vars map[string]TV, eff []string, sig *types.Signature) []string {
	fc := fr.fc
	sc := fc.sc
	e := fc.e
	pkg := shortPkg(fr.topFn().Pkg.Pkg.Path())
	if ct != nil {
		env := &specEnv{fc: fc, fr: fr, vars: copyVars(vars), st: st, old: st, pkg: pkg}
		for i, rq := range ct.Requires {
			label := rq.Label
			if label == "" {
				label = fmt.Sprintf("r%d", i+1)
			}
			fr.oblige(st, "pre", anchor+"."+label, pos, env.evalBool(rq.Expr, rq.Src), "precondition of "+key+": "+rq.Src)
		}
	}
	pre := st.clone()
	argOf := fr.ownParam
	if fr.calleeArgs != nil {
		// effect classes of an external callee's own contract are relative to the callee's parameters
		argOf = fr.calleeArgs
	}
	fc.havocFramedArgs(st, pre, eff, argOf)
	fr.bumpAlloc(st)
	res := fr.freshResults(st, sig, "dyn")
	if ct != nil {
		env := &specEnv{fc: fc, fr: fr, vars: copyVars(vars), st: st, old: pre, pkg: pkg}
		rs := sig.Results()
		for i := 0; i < rs.Len(); i++ {
			v := rs.At(i)
			tv := TV{T: res[i], Sort: e.u.sortOf(v.Type()), Typ: v.Type()}
			if v.Name() != "" {
				env.vars[v.Name()] = tv
			}
			env.vars[fmt.Sprintf("r%d", i)] = tv
			if rs.Len() == 1 || (i == 0 && !isErrorType(v.Type())) {
				if _, ok := env.vars["result"]; !ok {
					env.vars["result"] = tv
				}
			}
			if isErrorType(v.Type()) {
				if _, ok := env.vars["err"]; !ok {
					env.vars["err"] = tv
				}
			}
		}
		for _, en := range ct.Ensures {
			sc.assume(implies(st.reach, env.evalBool(en.Expr, en.Src)))
		}
	}
	return res
}

func (fr *frame) topFn() *ssa.Function {
	f := fr.fc.fn
	for f.Parent() != nil {
		f = f.Parent()
	}
	return f
}

func (fr *frame) dynamicCall(st *state, c *ssa.CallCommon, pos token.Pos, args []string, sig *types.Signature) []string {
	fc := fr.fc
	e := fc.e
	anchor := fr.anchorText(pos, "call")
	var key string
	if n, ok := types.Unalias(c.Value.Type()).(*types.Named); ok {
		key = "functype:" + qualName(n)
	} else {
		key = "functype:" + sigKey(sig)
		// an unnamed function type with the signature of a named one that has a contract
		for k := range e.contracts.Funcs {
			if !strings.HasPrefix(k, "functype:") {
				continue
			}
			q := strings.TrimPrefix(k, "functype:")
			if i := strings.Index(q, "."); i > 0 {
				if t, err := e.resolveType(q[:i], q[i+1:]); err == nil {
					if us, ok := t.Underlying().(*types.Signature); ok && sigKey(us) == sigKey(sig) {
						key = k
					}
				}
			}
		}
	}
	ct := e.contracts.Funcs[key]
	if ct != nil {
		fc.used[key] = true
		// every repo function that can flow into this function type must implement the contract
		for _, g := range e.sigFuncs[sigKey(sig)] {
			gc := e.contracts.Funcs[e.keyOf(g)]
			if gc == nil || gc.Implements != key {
				fr.oblige(st, "functype", anchor+"."+e.keyOf(g), pos, "false", e.keyOf(g)+" can be called through "+key+" but does not declare `implements`")
			}
		}
	} else {
		fc.unmodelled[key] = true
	}
	if fr.sweepOn() {
		fr.oblige(st, "nil", anchor, pos, fmt.Sprintf("(not (= %s 0))", fr.val(c.Value)), "call of nil function value")
	}
	eff := e.callEffects(fr.fn, c)
	if ct != nil && ct.HasMod {
		eff = ct.Modifies
	}
	vars := map[string]TV{"fn": {T: fr.val(c.Value), Sort: "Int"}}
	for i := 0; i < sig.Params().Len() && i < len(args); i++ {
		p := sig.Params().At(i)
		name := p.Name()
		if name == "" {
			name = fmt.Sprintf("a%d", i)
		}
		vars[name] = TV{T: args[i], Sort: e.u.sortOf(p.Type()), Typ: p.Type()}
		vars[fmt.Sprintf("a%d", i)] = vars[name]
	}
	return fr.specCall(st, ct, key, anchor, pos, vars, eff, sig)
}

// builtin functions
func (fr *frame) builtin(st *state, b *ssa.Builtin, c *ssa.CallCommon, instr ssa.Instruction, pos token.Pos, args []string) []string {
	fc := fr.fc
	sc := fc.sc
	u := fc.e.u
	switch b.Name() {
	case "len":
		switch u.sortOf(c.Args[0].Type()) {
		case "Str":
			return []string{sc.define("len", "Int", app("slen", args[0]))}
		case "Slice":
			return []string{sc.define("len", "Int", app("sllen", args[0]))}
		default:
			if _, ok := c.Args[0].Type().Underlying().(*types.Map); ok {
				// the length of a map is a function of its key set (cardinality, assumed < 2^30)
				md, _, ks, _ := fc.e.mapKeys(c.Args[0].Type())
				fn := "maplen_" + sanitize(ks)
				u.global(fmt.Sprintf("(declare-fun %s ((Array %s Bool)) Int)", fn, ks))
				r := sc.define("maplen", "Int", fmt.Sprintf("(%s (select %s %s))", fn, fc.hget(st, md), args[0]))
				sc.assume(fmt.Sprintf("(and (>= %s 0) (< %s 1073741824) (=> (= %s 0) (= %s 0)))", r, r, args[0], r))
				return []string{r}
			}
		}
		r := sc.declare("len", "Int")
		sc.assume(fmt.Sprintf("(>= %s 0)", r))
		return []string{r}
	case "cap":
		r := sc.declare("cap", "Int")
		if u.sortOf(c.Args[0].Type()) == "Slice" {
			sc.assume(fmt.Sprintf("(>= %s (sllen %s))", r, args[0]))
		}
		return []string{r}
	case "append":
		return []string{fr.appendSlice(st, c, args)}
	case "copy":
		if stt, ok := c.Args[0].Type().Underlying().(*types.Slice); ok {
			fr.havocArr(st, stt.Elem(), app("sref", args[0]))
		}
		r := sc.declare("copied", "Int")
		sc.assume(fmt.Sprintf("(>= %s 0)", r))
		return []string{r}
	case "delete":
		md, _, ks, _ := fc.e.mapKeys(c.Args[0].Type())
		m := args[0]
		k := fr.mapKey(st, args[1], c.Args[1].Type(), ks)
		fc.hset(st, md, app("store", fc.hget(st, md), m, app("store", app("select", fc.hget(st, md), m), k, "false")))
		return nil
	case "close":
		k := "G|chan.closed|Bool"
		if fr.sweepOn() {
			fr.oblige(st, "closeclosed", fr.anchorText(pos, "callfull"), pos, not(app("select", fc.hget(st, k), args[0])), "close of closed channel")
		}
		fc.hset(st, k, app("store", fc.hget(st, k), args[0], "true"))
		return nil
	case "print", "println":
		return nil
	}
	fc.abstract("builtin %s not modelled", b.Name())
	return fr.freshResults(st, c.Signature(), b.Name())
}

// appendSlice: append(s, xs...) — non-deterministically in place or reallocated.
// The new backing array is the old one (same offsets) with the new elements stored behind
// position len; on reallocation it lives at a fresh reference and the old array is untouched.
func (fr *frame) appendSlice(st *state, c *ssa.CallCommon, args []string) string {
	fc := fr.fc
	sc := fc.sc
	u := fc.e.u
	stt, ok := c.Args[0].Type().Underlying().(*types.Slice)
	if !ok {
		return sc.declare("append", "Slice")
	}
	es := u.sortOf(stt.Elem())
	key := u.arrKey(stt.Elem())
	s := args[0]
	grow := sc.declare("grow", "Bool")
	fresh := fr.freshRef(st, "append")
	sc.assume(fmt.Sprintf("(=> (= (sref %s) 0) %s)", s, grow))
	ref := sc.define("apref", "Int", ite(grow, fresh, app("sref", s)))
	off := app("soff", s)
	n := app("sllen", s)
	oldArr := app("select", fc.hget(st, key), app("sref", s))
	// constant-length variadic part?
	constN := -1
	if sl, ok := c.Args[1].(*ssa.Slice); ok {
		if al, ok := sl.X.(*ssa.Alloc); ok && sl.Low == nil && sl.High == nil {
			if at, ok := al.Type().Underlying().(*types.Pointer).Elem().Underlying().(*types.Array); ok {
				constN = int(at.Len())
			}
		}
	}
	if cst, ok := c.Args[1].(*ssa.Const); ok && cst.Value == nil {
		constN = 0
	}
	var na, extraLen string
	if constN >= 0 && constN <= 8 && u.sortOf(c.Args[1].Type()) == "Slice" {
		extraLen = fmt.Sprint(constN)
		na = oldArr
		for j := 0; j < constN; j++ {
			ex := fmt.Sprintf("(select (select %s (sref %s)) (+ (soff %s) %d))", fc.hget(st, key), args[1], args[1], j)
			na = fmt.Sprintf("(store %s (+ %s %s %d) %s)", na, off, n, j, ex)
		}
	} else {
		nav := sc.declare("aparr", "(Array Int "+es+")")
		i := sc.fresh("i")
		if u.sortOf(c.Args[1].Type()) == "Slice" {
			extraLen = app("sllen", args[1])
			exArr := app("select", fc.hget(st, key), app("sref", args[1]))
			sc.assume(fmt.Sprintf("(forall ((%s Int)) (! (=> (and (<= 0 %s) (< %s %s)) (= (select %s (+ %s %s %s)) (select %s (+ (soff %s) %s)))) :pattern ((select %s (+ %s %s %s)))))", i, i, i, extraLen, nav, off, n, i, exArr, args[1], i, nav, off, n, i))
		} else {
			extraLen = app("slen", args[1])
		}
		sc.assume(fmt.Sprintf("(forall ((%s Int)) (! (=> (or (< %s (+ %s %s)) (>= %s (+ %s %s %s))) (= (select %s %s) (select %s %s))) :pattern ((select %s %s))))", i, i, off, n, i, off, n, extraLen, nav, i, oldArr, i, nav, i))
		na = nav
	}
	fc.hset(st, key, app("store", fc.hget(st, key), ref, na))
	return sc.define("appended", "Slice", fmt.Sprintf("(mkslice %s %s (+ %s %s))", ref, off, n, extraLen))
}

var _ = strings.TrimSpace

// ownParam: the term of parameter j of the function this frame executes.
func (fr *frame) ownParam(j int) string {
	if j < len(fr.fn.Params) {
		if t, ok := fr.regs[fr.fn.Params[j]]; ok {
			return t
		}
	}
	return ""
}

// dispatchClosed: a call of an unexported interface method can only reach types of the declaring package
// (closed world): case split on the dynamic type over the pointer types of that package that have the method,
// expanding the (possibly promoted) method for each; any other dynamic type gets the generic treatment.
func (fr *frame) dispatchClosed(st *state, c *ssa.CallCommon, pos token.Pos, recv string, args []string, eff []string) ([]string, bool) {
	fc := fr.fc
	sc := fc.sc
	e := fc.e
	pkg := c.Method.Pkg()
	if pkg == nil {
		return nil, false
	}
	type cand struct {
		tag int
		fn  *ssa.Function
	}
	var cands []cand
	names := pkg.Scope().Names()
	sort.Strings(names)
	for _, n := range names {
		tn, ok := pkg.Scope().Lookup(n).(*types.TypeName)
		if !ok || tn.IsAlias() {
			continue
		}
		if _, isIface := tn.Type().Underlying().(*types.Interface); isIface {
			continue
		}
		pt := types.NewPointer(tn.Type())
		sel := e.prog.MethodSets.MethodSet(pt).Lookup(pkg, c.Method.Name())
		if sel == nil {
			continue
		}
		if !types.Identical(sel.Type().(*types.Signature).Params(), c.Signature().Params()) {
			continue
		}
		f := e.prog.MethodValue(sel)
		if f == nil || len(f.Blocks) == 0 {
			continue
		}
		cands = append(cands, cand{e.u.tagOf(pt), f})
	}
	if len(cands) == 0 || len(cands) > 12 {
		return nil, false
	}
	sig := c.Signature()
	var outs []*state
	var results [][]string
	var conds []string
	for _, cd := range cands {
		cond := fmt.Sprintf("(= (vtag %s) %d)", recv, cd.tag)
		conds = append(conds, cond)
		b := st.clone()
		b.reach = sc.define("reach_d", "Bool", and(st.reach, cond))
		cargs := append([]string{app("vpay", recv)}, args...)
		var res []string
		key := e.keyOf(cd.fn)
		if ct := e.contracts.Funcs[key]; ct != nil && !ct.Inline {
			res = fr.contractCall(b, cd.fn, ct, key, c, pos, cargs, nil)
		} else {
			saved := fr.curCall
			fr.curCall = nil
			res = fr.inlineCall(b, cd.fn, nil, pos, cargs)
			fr.curCall = saved
		}
		outs = append(outs, b)
		results = append(results, res)
	}
	// every other dynamic type
	other := st.clone()
	var nots []string
	for _, cnd := range conds {
		nots = append(nots, not(cnd))
	}
	other.reach = sc.define("reach_d", "Bool", and(append([]string{st.reach}, nots...)...))
	pre := other.clone()
	fc.havocFramedArgs(other, pre, eff, fr.ownParam)
	fr.bumpAlloc(other)
	ores := fr.freshResults(other, sig, "dyn")
	outs = append(outs, other)
	results = append(results, ores)
	merged := fr.mergeStates(outs)
	n := sig.Results().Len()
	res := make([]string, n)
	for i := 0; i < n; i++ {
		t := results[len(results)-1][i]
		for j := len(results) - 2; j >= 0; j-- {
			t = ite(outs[j].reach, results[j][i], t)
		}
		res[i] = sc.define("disp", e.u.sortOf(sig.Results().At(i).Type()), t)
	}
	st.heap = merged.heap
	st.alloc = merged.alloc
	st.reach = merged.reach
	return res, true
}

// autoInlinable: a small helper without a contract (no loop, no recursion, no defer / go, a handful of
// instructions) is expanded at its call sites instead of being treated as an unknown callee - so that extracting a
// few lines into a helper does not need a contract of its own.
func autoInlinable(g *ssa.Function) bool {
	if g == nil || len(g.Blocks) == 0 || len(g.Blocks) > 16 || g.Recover != nil {
		return false
	}
	// no cycle in the control-flow graph (block numbers are not topological: the join of a || chain comes first)
	color := make([]int, len(g.Blocks))
	var cyclic func(b *ssa.BasicBlock) bool
	cyclic = func(b *ssa.BasicBlock) bool {
		color[b.Index] = 1
		for _, s := range b.Succs {
			if color[s.Index] == 1 || (color[s.Index] == 0 && cyclic(s)) {
				return true
			}
		}
		color[b.Index] = 2
		return false
	}
	if cyclic(g.Blocks[0]) {
		return false
	}
	n := 0
	for _, b := range g.Blocks {
		for _, in := range b.Instrs {
			switch x := in.(type) {
			case *ssa.DebugRef:
				continue
			case *ssa.Defer, *ssa.Go, *ssa.Select, *ssa.Range, *ssa.Next:
				return false
			case *ssa.Call:
				if x.Call.StaticCallee() == g {
					return false
				}
			}
			n++
		}
	}
	return n <= 40
}


// evalClause evaluates a body-level clause; ok is false when it names an identifier that is not in scope (the clause
// no longer attaches to the code - reported as one failed obligation of that clause, not of the whole function).
func (fr *frame) evalClause(env *specEnv, x SExpr, src string) (t string, ok bool) {
	defer func() {
		if r := recover(); r != nil {
			if ee, is := r.(engineError); is && strings.Contains(string(ee), "unknown identifier") {
				ok = false
				return
			}
			panic(r)
		}
	}()
	return env.evalBool(x, src), true
}


// isErrorConstructor: the call creates an error value (it does not report the failure of an operation).
func isErrorConstructor(text string) bool {
	if strings.HasPrefix(text, "errors.New(") || strings.HasPrefix(text, "fmt.Errorf(") {
		return true
	}
	if i := strings.Index(text, "("); i > 0 {
		name := text[:i]
		if j := strings.LastIndex(name, "."); j >= 0 {
			name = name[j+1:]
		}
		if strings.HasPrefix(name, "new") && strings.HasSuffix(name, "Error") {
			return true
		}
	}
	return false
}


// matchCall: does the call with source text `text` fall under the key of a called("...") / never clause? A key that ends
// in ")" is the whole call; any other key is a prefix of it ("os.Open(" - whatever the argument is called); a prefix key
// that starts with "." matches the end of the callee expression (".Parse(" - whatever the receiver is called).
func matchCall(ref, text string) bool {
	if strings.HasSuffix(ref, ")") {
		return ref == text
	}
	if strings.HasPrefix(ref, ".") {
		i := strings.Index(text, "(")
		if i < 0 {
			return false
		}
		j := strings.Index(ref, "(")
		if j < 0 {
			return strings.HasSuffix(text[:i], ref)
		}
		return strings.HasSuffix(text[:i], ref[:j]) && strings.HasPrefix(text[i:], ref[j:])
	}
	return strings.HasPrefix(text, ref)
}
