package main

// Engine: loads /repo (build tag verif), builds SSA, reads contracts, computes write effects.

import (
	"fmt"
	"go/ast"
	"go/token"
	"go/types"
	"os"
	"path/filepath"
	"sort"
	"strings"

	"golang.org/x/tools/go/packages"
	"golang.org/x/tools/go/ssa"
	"golang.org/x/tools/go/ssa/ssautil"
)

type Engine struct {
	calledCache  map[*ssa.Function]bool
	repo         string
	fset         *token.FileSet
	pkgs         []*packages.Package
	prog         *ssa.Program
	spkgs        []*ssa.Package
	u            *Universe
	contracts    *Contracts
	funcs        map[string]*ssa.Function
	fnKeys       map[*ssa.Function]string
	effects      map[*ssa.Function]map[string]bool
	sigFuncs     map[string][]*ssa.Function // address-taken functions by signature string
	files        map[string]*ast.File       // by filename
	src          map[string][]byte
	typeCache    map[string]types.Type
	arrInvKeys   map[string]bool
	mapFrameKeys map[string]map[string]bool
	mapInvKeys   map[string]bool
}

const repoMod = "github.com/tyler-sommer/stick"

func loadEngine(repo string, speclibDir string) (*Engine, error) {
	e := &Engine{repo: repo, u: newUniverse(), contracts: newContracts(), funcs: map[string]*ssa.Function{},
		fnKeys: map[*ssa.Function]string{}, files: map[string]*ast.File{}, src: map[string][]byte{}, typeCache: map[string]types.Type{}}
	cfg := &packages.Config{Mode: packages.LoadAllSyntax, Dir: repo, BuildFlags: []string{"-tags=verif"},
		Env: append(os.Environ(), "GOFLAGS=-mod=mod", "GOPROXY=off", "GOSUMDB=off", "GOTOOLCHAIN=local")}
	pkgs, err := packages.Load(cfg, "./...")
	if err != nil {
		return nil, err
	}
	for _, p := range pkgs {
		for _, er := range p.Errors {
			return nil, fmt.Errorf("load %s: %v", p.PkgPath, er)
		}
	}
	e.pkgs = pkgs
	if len(pkgs) > 0 {
		e.fset = pkgs[0].Fset
	}
	e.prog, e.spkgs = ssautil.AllPackages(pkgs, ssa.GlobalDebug)
	e.prog.Build()
	for _, p := range pkgs {
		for i, f := range p.Syntax {
			fn := p.CompiledGoFiles[i]
			e.files[fn] = f
		}
	}
	// index functions
	for _, sp := range e.spkgs {
		if sp == nil {
			continue
		}
		for _, m := range sp.Members {
			switch mm := m.(type) {
			case *ssa.Function:
				e.indexFn(mm)
			case *ssa.Type:
				for _, t := range []types.Type{mm.Type(), types.NewPointer(mm.Type())} {
					ms := e.prog.MethodSets.MethodSet(t)
					for i := 0; i < ms.Len(); i++ {
						if f := e.prog.MethodValue(ms.At(i)); f != nil && f.Synthetic == "" {
							e.indexFn(f)
						}
					}
				}
			}
		}
	}
	// contracts: repo files named zz_contracts_verif.go, then speclib
	for _, p := range pkgs {
		for _, fn := range p.CompiledGoFiles {
			if filepath.Base(fn) == "zz_contracts_verif.go" {
				if err := e.contracts.loadFile(fn, shortPkg(p.PkgPath)); err != nil {
					return nil, err
				}
			}
		}
	}
	if speclibDir != "" {
		ms, _ := filepath.Glob(filepath.Join(speclibDir, "*.spec"))
		sort.Strings(ms)
		for _, fn := range ms {
			if err := e.contracts.loadFile(fn, "speclib"); err != nil {
				return nil, err
			}
		}
	}
	// array element invariants: resolve element types to heap keys
	e.arrInvKeys = map[string]bool{}
	for k := range e.contracts.ArrayInv {
		parts := strings.SplitN(k, "|", 2)
		t, err := e.resolveType(parts[0], parts[1])
		if err != nil {
			return nil, err
		}
		e.arrInvKeys[e.u.arrKey(t)] = true
	}
	e.mapInvKeys = map[string]bool{}
	for k := range e.contracts.MapInv {
		parts := strings.SplitN(k, "|", 2)
		t, err := e.resolveType(parts[0], parts[1])
		if err != nil {
			return nil, err
		}
		_, mv, _, _ := e.mapKeys(t)
		e.mapInvKeys[mv] = true
	}
	e.mapFrameKeys = map[string]map[string]bool{}
	for k, fs := range e.contracts.MapFrame {
		parts := strings.SplitN(k, "|", 2)
		t, err := e.resolveType(parts[0], parts[1])
		if err != nil {
			return nil, err
		}
		_, mv, _, _ := e.mapKeys(t)
		e.mapFrameKeys[mv] = map[string]bool{}
		for _, f := range fs {
			e.mapFrameKeys[mv][f] = true
		}
	}
	// functions implementing a functype inherit its clauses (checked against their own body)
	for _, c := range e.contracts.Funcs {
		if c.Implements == "" {
			continue
		}
		ft := e.contracts.Funcs[c.Implements]
		if ft == nil {
			return nil, fmt.Errorf("%s implements unknown %s", c.Key, c.Implements)
		}
		c.Requires = append(append([]Clause{}, ft.Requires...), c.Requires...)
		c.Ensures = append(append([]Clause{}, ft.Ensures...), c.Ensures...)
		c.Trusts = append(append([]Clause{}, ft.Trusts...), c.Trusts...)
	}
	for _, g := range e.contracts.Ghosts {
		srt := specSort(g.Sort)
		if strings.HasPrefix(g.Sort, "array:") {
			// array:<go type> resolved in the package of the ghost's owner type
			pk := g.Type
			if i := strings.Index(pk, "."); i > 0 {
				pk = pk[:i]
			}
			t, err := e.resolveType(pk, strings.TrimPrefix(g.Sort, "array:"))
			if err != nil {
				return nil, err
			}
			srt = "(Array Int " + e.u.sortOf(t) + ")"
		}
		e.u.ghost[g.Type+"."+g.Field] = srt
	}
	e.computeEffects()
	return e, nil
}

func specSort(s string) string {
	switch s {
	case "int", "ref", "func":
		return "Int"
	case "bool":
		return "Bool"
	case "string":
		return "Str"
	case "real", "float":
		return "Real"
	case "val":
		return "Val"
	case "slice":
		return "Slice"
	}
	return s
}

func (e *Engine) indexFn(f *ssa.Function) {
	if f.Blocks == nil {
		return
	}
	k := e.keyOf(f)
	if _, ok := e.funcs[k]; ok {
		return
	}
	e.funcs[k] = f
	e.fnKeys[f] = k
	for _, an := range f.AnonFuncs {
		e.indexFn(an)
	}
}

// keyOf: parse.(*lexer).next, stick.(*state).walkForNode$1, escape.HTML
func (e *Engine) keyOf(f *ssa.Function) string {
	if k, ok := e.fnKeys[f]; ok {
		return k
	}
	if f.Parent() != nil {
		pk := e.keyOf(f.Parent())
		// f.Name() is like walkForNode$1
		n := f.Name()
		if i := strings.LastIndex(n, "$"); i >= 0 {
			return pk + n[i:]
		}
		return pk + "$" + n
	}
	pkg := ""
	if f.Pkg != nil {
		pkg = shortPkg(f.Pkg.Pkg.Path())
	} else if f.Object() != nil && f.Object().Pkg() != nil {
		pkg = shortPkg(f.Object().Pkg().Path())
	}
	if recv := f.Signature.Recv(); recv != nil {
		t := recv.Type()
		if p, ok := t.(*types.Pointer); ok {
			if n, ok := p.Elem().(*types.Named); ok {
				return pkg + ".(*" + n.Obj().Name() + ")." + f.Name()
			}
		}
		if n, ok := t.(*types.Named); ok {
			return pkg + "." + n.Obj().Name() + "." + f.Name()
		}
	}
	return pkg + "." + f.Name()
}

func (e *Engine) isRepoFn(f *ssa.Function) bool {
	if f == nil {
		return false
	}
	for f.Parent() != nil {
		f = f.Parent()
	}
	if f.Pkg == nil {
		return false
	}
	return strings.HasPrefix(f.Pkg.Pkg.Path(), repoMod) && f.Blocks != nil
}

func (e *Engine) pkgByShort(name string) *packages.Package {
	for _, p := range e.pkgs {
		if shortPkg(p.PkgPath) == name {
			return p
		}
	}
	return nil
}

// resolveType parses a Go type expression in the scope of package pkg.
func (e *Engine) resolveType(pkg string, expr string) (types.Type, error) {
	ck := pkg + "|" + expr
	if t, ok := e.typeCache[ck]; ok {
		return t, nil
	}
	switch expr {
	case "int":
		return types.Typ[types.Int], nil
	case "bool":
		return types.Typ[types.Bool], nil
	case "string":
		return types.Typ[types.String], nil
	case "float64":
		return types.Typ[types.Float64], nil
	case "ref", "func":
		return types.Typ[types.UnsafePointer], nil
	}
	// pkg.Name (possibly behind * or []) naming an unexported type of another package: looked up in that
	// package's scope directly (go/types refuses the qualified form)
	{
		pre, rest := "", expr
		for strings.HasPrefix(rest, "*") || strings.HasPrefix(rest, "[]") {
			if strings.HasPrefix(rest, "*") {
				pre, rest = pre+"*", rest[1:]
			} else {
				pre, rest = pre+"[]", rest[2:]
			}
		}
		if i := strings.Index(rest, "."); i > 0 && !strings.ContainsAny(rest, "[]( ") {
			if q := e.pkgByShort(rest[:i]); q != nil && q.Types.Name() != pkg {
				if obj, ok := q.Types.Scope().Lookup(rest[i+1:]).(*types.TypeName); ok && !obj.Exported() {
					t := obj.Type()
					for j := len(pre); j > 0; {
						if strings.HasSuffix(pre[:j], "[]") {
							t = types.NewSlice(t)
							j -= 2
						} else {
							t = types.NewPointer(t)
							j--
						}
					}
					e.typeCache[ck] = t
					return t, nil
				}
			}
		}
	}
	p := e.pkgByShort(pkg)
	if p == nil {
		// try all packages
		for _, q := range e.pkgs {
			if tv, err := types.Eval(e.fset, q.Types, token.NoPos, "(*struct{x "+expr+"})(nil)"); err == nil {
				t := tv.Type.(*types.Pointer).Elem().(*types.Struct).Field(0).Type()
				e.typeCache[ck] = t
				return t, nil
			}
		}
		return nil, fmt.Errorf("cannot resolve type %q (no package %s)", expr, pkg)
	}
	tv, err := types.Eval(e.fset, p.Types, token.NoPos, "(*struct{x "+expr+"})(nil)")
	if err != nil {
		// retry inside each file's scope so that the file's imports are visible
		for _, f := range p.Syntax {
			if len(f.Decls) == 0 {
				continue
			}
			if tv2, err2 := types.Eval(e.fset, p.Types, f.Decls[len(f.Decls)-1].Pos(), "(*struct{x "+expr+"})(nil)"); err2 == nil {
				tv, err = tv2, nil
				break
			}
		}
	}
	if err != nil {
		return nil, fmt.Errorf("cannot resolve type %q in %s: %v", expr, pkg, err)
	}
	t := tv.Type.(*types.Pointer).Elem().(*types.Struct).Field(0).Type()
	e.typeCache[ck] = t
	return t, nil
}

// sourceText returns the normalised source text between two positions.
func (e *Engine) sourceText(from, to token.Pos) string {
	if !from.IsValid() || !to.IsValid() {
		return ""
	}
	pf := e.fset.Position(from)
	pt := e.fset.Position(to)
	b, ok := e.src[pf.Filename]
	if !ok {
		b, _ = os.ReadFile(pf.Filename)
		e.src[pf.Filename] = b
	}
	if pf.Offset < 0 || pt.Offset > len(b) || pf.Offset > pt.Offset {
		return ""
	}
	return strings.Join(strings.Fields(string(b[pf.Offset:pt.Offset])), "")
}

// ---------------------------------------------------------------------------
// Write-effect analysis: which heap keys may a function write (transitively)?
// Keys are type-based (site suffixes are added at use).

// what user callbacks may write: output buffers, the scope maps (Context.Scope().Set) and the metadata map
var callbackEffects = []string{"MD|Int|Val|map_string_stick.Value", "MV|Int|Val|map_string_stick.Value", "MD|Int|Str|map_string_string", "MV|Int|Str|map_string_string", "EXT"}

func (e *Engine) computeEffects() {
	e.effects = map[*ssa.Function]map[string]bool{}
	e.sigFuncs = map[string][]*ssa.Function{}
	var all []*ssa.Function
	for _, f := range e.funcs {
		all = append(all, f)
	}
	sort.Slice(all, func(i, j int) bool { return e.fnKeys[all[i]] < e.fnKeys[all[j]] })
	// address-taken functions by signature
	for _, f := range all {
		for _, b := range f.Blocks {
			for _, in := range b.Instrs {
				var ops []*ssa.Value
				for _, op := range in.Operands(ops) {
					if op == nil || *op == nil {
						continue
					}
					if cf, ok := (*op).(*ssa.Function); ok && cf.Blocks != nil {
						if call, ok := in.(ssa.CallInstruction); ok && call.Common().Value == cf {
							continue
						}
						s := sigKey(cf.Signature)
						e.sigFuncs[s] = appendUniq(e.sigFuncs[s], cf)
					}
				}
				if mc, ok := in.(*ssa.MakeClosure); ok {
					cf := mc.Fn.(*ssa.Function)
					s := sigKey(cf.Signature)
					e.sigFuncs[s] = appendUniq(e.sigFuncs[s], cf)
				}
			}
		}
	}
	for _, f := range all {
		e.effects[f] = map[string]bool{}
	}
	changed := true
	for changed {
		changed = false
		for _, f := range all {
			eff := e.effects[f]
			n := len(eff)
			for _, b := range f.Blocks {
				for _, in := range b.Instrs {
					for _, k := range e.instrEffects(f, in) {
						eff[k] = true
					}
				}
			}
			if len(eff) != n {
				changed = true
			}
		}
	}
}

func appendUniq(l []*ssa.Function, f *ssa.Function) []*ssa.Function {
	for _, x := range l {
		if x == f {
			return l
		}
	}
	return append(l, f)
}

func sigKey(s *types.Signature) string {
	// receiver and parameter names are ignored
	var sb strings.Builder
	sb.WriteString("func(")
	for i := 0; i < s.Params().Len(); i++ {
		if i > 0 {
			sb.WriteString(",")
		}
		if s.Variadic() && i == s.Params().Len()-1 {
			sb.WriteString("...")
		}
		sb.WriteString(s.Params().At(i).Type().String())
	}
	sb.WriteString(")(")
	for i := 0; i < s.Results().Len(); i++ {
		if i > 0 {
			sb.WriteString(",")
		}
		sb.WriteString(s.Results().At(i).Type().String())
	}
	sb.WriteString(")")
	return sb.String()
}

// addrKey returns the type-based heap key written through address value a.
func (e *Engine) addrKeys(a ssa.Value) []string {
	switch v := a.(type) {
	case *ssa.FieldAddr:
		pt, ok := v.X.Type().Underlying().(*types.Pointer)
		if !ok {
			return []string{"*"}
		}
		// nested FieldAddr into a value struct: key is the outermost field
		if inner, ok := v.X.(*ssa.FieldAddr); ok {
			return e.addrKeys(inner)
		}
		if inner, ok := v.X.(*ssa.IndexAddr); ok {
			return e.addrKeys(inner)
		}
		if e.u.structInfoOf(pt.Elem()) == nil {
			return []string{"EXT"}
		}
		k, _, _ := e.u.fieldKey(pt.Elem(), v.Field)
		return []string{k}
	case *ssa.IndexAddr:
		switch xt := v.X.Type().Underlying().(type) {
		case *types.Slice:
			return []string{e.u.arrKey(xt.Elem())}
		case *types.Pointer:
			if at, ok := xt.Elem().Underlying().(*types.Array); ok {
				return []string{e.u.arrKey(at.Elem())}
			}
			return []string{"*"}
		}
		return []string{"*"}
	case *ssa.Alloc:
		et := v.Type().Underlying().(*types.Pointer).Elem()
		if si := e.u.structInfoOf(et); si != nil {
			var ks []string
			for i := range si.fields {
				k, _, _ := e.u.fieldKey(et, i)
				ks = append(ks, k)
			}
			return ks
		}
		return []string{"C|" + e.u.sortOf(et)}
	case *ssa.FreeVar:
		et := v.Type().Underlying().(*types.Pointer).Elem()
		return []string{"C|" + e.u.sortOf(et)}
	case *ssa.Global:
		et := v.Type().Underlying().(*types.Pointer).Elem()
		return []string{"X|" + v.Pkg.Pkg.Name() + "." + v.Name() + "|" + e.u.sortOf(et)}
	default:
		// pointer of unknown provenance
		if pt, ok := a.Type().Underlying().(*types.Pointer); ok {
			et := pt.Elem()
			if si := e.u.structInfoOf(et); si != nil {
				var ks []string
				for i := range si.fields {
					k, _, _ := e.u.fieldKey(et, i)
					ks = append(ks, k)
				}
				return ks
			}
			return []string{"C|" + e.u.sortOf(et)}
		}
	}
	return []string{"*"}
}

func (e *Engine) mapKeys(t types.Type) (md, mv, ks, vs string) {
	mt := t.Underlying().(*types.Map)
	ks = e.u.sortOf(mt.Key())
	if ks == "Str" {
		ks = "Int"
	}
	if ks == "Val" || strings.HasPrefix(ks, "S_") || ks == "Slice" || ks == "Real" {
		// index by an abstract key id
		ks = "Int"
	}
	vs = e.u.sortOf(mt.Elem())
	// maps of different Go types never alias: the type is part of the key
	ts := sanitize(types.TypeString(types.Unalias(t), func(p *types.Package) string { return p.Name() }))
	if n, ok := types.Unalias(t).(*types.Named); ok {
		ts = sanitize(types.TypeString(n.Underlying(), func(p *types.Package) string { return p.Name() }))
	}
	return "MD|" + ks + "|" + vs + "|" + ts, "MV|" + ks + "|" + vs + "|" + ts, ks, vs
}

// baseClass classifies the object a pointer value denotes, relative to function f:
//
//	"#P<i>"  parameter i of f        "#FV<k>" free variable k of closure f
//	"#FRESH" allocated by f (or by a callee that returns a fresh object)        "" unknown
func (e *Engine) baseClass(f *ssa.Function, v ssa.Value) string {
	switch x := v.(type) {
	case *ssa.Parameter:
		for i, p := range f.Params {
			if p == x {
				return fmt.Sprintf("#P%d", i)
			}
		}
	case *ssa.Alloc:
		return "#FRESH"
	case *ssa.FreeVar:
		for k, fv := range f.FreeVars {
			if fv == x {
				return fmt.Sprintf("#FV%d", k)
			}
		}
	case *ssa.Call:
		if g := x.Call.StaticCallee(); g != nil {
			if ct := e.contracts.Funcs[e.keyOf(g)]; ct != nil && ct.FreshResult {
				return "#FRESH"
			}
			if g.String() == "(reflect.Value).MapRange" {
				// a new iterator object
				return "#FRESH"
			}
		}
	case *ssa.UnOp:
		if x.Op == token.MUL {
			// load from a cell that only ever holds one value (a captured parameter)
			switch c := x.X.(type) {
			case *ssa.Alloc:
				if val := e.singleStore(c); val != nil {
					return e.baseClass(f, val)
				}
			case *ssa.FreeVar:
				// captured by reference: the class is that of the cell's content in the defining function
				for k, fv := range f.FreeVars {
					if fv == c {
						return fmt.Sprintf("#FVC%d", k)
					}
				}
			}
		}
	case *ssa.ChangeType:
		return e.baseClass(f, x.X)
	case *ssa.MakeInterface:
		return e.baseClass(f, x.X)
	}
	return ""
}

// singleStore: the value stored into a local cell if there is exactly one store (the initialisation) and
// the cell's address does not escape other than into closures that only read it.
func (e *Engine) singleStore(a *ssa.Alloc) ssa.Value {
	var val ssa.Value
	n := 0
	if a.Referrers() == nil {
		return nil
	}
	for _, r := range *a.Referrers() {
		switch rr := r.(type) {
		case *ssa.Store:
			if rr.Addr == a {
				n++
				val = rr.Val
			} else {
				return nil
			}
		case *ssa.UnOp, *ssa.DebugRef:
		case *ssa.MakeClosure:
			// the closure must not store to the captured variable itself
			cf := rr.Fn.(*ssa.Function)
			for k, b := range rr.Bindings {
				if b != a || k >= len(cf.FreeVars) {
					continue
				}
				fv := cf.FreeVars[k]
				if fv.Referrers() != nil {
					for _, fr := range *fv.Referrers() {
						if st, ok := fr.(*ssa.Store); ok && st.Addr == fv {
							return nil
						}
						if _, ok := fr.(*ssa.MakeClosure); ok {
							return nil
						}
					}
				}
			}
		default:
			return nil
		}
	}
	if n == 1 {
		return val
	}
	return nil
}

// structBase: for a store through FieldAddr chains, the pointer to the outermost struct object.
func structBase(addr ssa.Value) ssa.Value {
	for {
		fa, ok := addr.(*ssa.FieldAddr)
		if !ok {
			return nil
		}
		if inner, ok := fa.X.(*ssa.FieldAddr); ok {
			addr = inner
			continue
		}
		return fa.X
	}
}

func stripBase(k string) string {
	if i := strings.Index(k, "#"); i >= 0 {
		return k[:i]
	}
	return k
}

func (e *Engine) instrEffects(f *ssa.Function, in ssa.Instruction) []string {
	switch v := in.(type) {
	case *ssa.Store:
		ks := e.addrKeys(v.Addr)
		if ia, ok := v.Addr.(*ssa.IndexAddr); ok {
			// element store into an array this function allocated itself
			fresh := false
			switch x := ia.X.(type) {
			case *ssa.Alloc, *ssa.MakeSlice:
				fresh = true
			case *ssa.Slice:
				if _, ok := x.X.(*ssa.Alloc); ok {
					fresh = true
				}
			}
			if fresh {
				out := make([]string, len(ks))
				for i, k := range ks {
					out[i] = k + "#FRESH"
				}
				return out
			}
		}
		if b := structBase(v.Addr); b != nil {
			if cls := e.baseClass(f, b); cls != "" {
				out := make([]string, len(ks))
				for i, k := range ks {
					if strings.HasPrefix(k, "F|") {
						out[i] = k + cls
					} else {
						out[i] = k
					}
				}
				return out
			}
		}
		return ks
	case *ssa.MapUpdate:
		md, mv, _, _ := e.mapKeys(v.Map.Type())
		return []string{md, mv}
	case *ssa.Send:
		return []string{"G|chan.sent|Int", "GA|chan.vals|" + e.u.sortOf(v.X.Type())}
	case *ssa.Next:
		if rng, ok := v.Iter.(*ssa.Range); ok && !v.IsString {
			if _, isMap := rng.X.Type().Underlying().(*types.Map); isMap {
				_, _, ks, _ := e.mapKeys(rng.X.Type())
				return []string{"IT", "ITV|" + ks}
			}
		}
		return []string{"IT"}
	case *ssa.Range:
		if _, isMap := v.X.Type().Underlying().(*types.Map); isMap {
			_, _, ks, _ := e.mapKeys(v.X.Type())
			return []string{"IT", "ITV|" + ks}
		}
		return []string{"IT"}
	case *ssa.Go:
		return e.callEffects(f, v.Common())
	case *ssa.Defer:
		return e.callEffects(f, v.Common())
	case *ssa.Call:
		return e.callEffects(f, v.Common())
	case *ssa.UnOp:
		if v.Op == token.ARROW {
			if v.CommaOk {
				return []string{"CH", "G|chan.drained|Bool"}
			}
			return []string{"CH"}
		}
	}
	return nil
}

func (e *Engine) effectList(f *ssa.Function) []string {
	var ks []string
	for k := range e.effects[f] {
		ks = append(ks, k)
	}
	sort.Strings(ks)
	return ks
}

// rebase translates an effect key of callee g ("K#P<j>", "K#FV<k>", "K#FVC<k>") into the caller f's terms.
func (e *Engine) rebase(f *ssa.Function, g *ssa.Function, c *ssa.CallCommon, mc *ssa.MakeClosure, k string) string {
	i := strings.Index(k, "#")
	if i < 0 {
		return k
	}
	base, cls := k[:i], k[i:]
	switch {
	case cls == "#FRESH":
		return k
	case strings.HasPrefix(cls, "#P"):
		var j int
		fmt.Sscanf(cls, "#P%d", &j)
		if c == nil || mc != nil && c.Value != mc {
			return base
		}
		// argument j of this call (for closures called directly the parameters line up with c.Args)
		if j < len(c.Args) && !c.IsInvoke() {
			if nc := e.baseClass(f, c.Args[j]); nc != "" {
				return base + nc
			}
		}
		return base
	case strings.HasPrefix(cls, "#FVC"), strings.HasPrefix(cls, "#FV"):
		var kk int
		byRef := strings.HasPrefix(cls, "#FVC")
		if byRef {
			fmt.Sscanf(cls, "#FVC%d", &kk)
		} else {
			fmt.Sscanf(cls, "#FV%d", &kk)
		}
		if mc == nil || kk >= len(mc.Bindings) {
			return base
		}
		b := mc.Bindings[kk]
		if byRef {
			// the binding is the cell; its content's class in f
			switch cell := b.(type) {
			case *ssa.Alloc:
				if val := e.singleStore(cell); val != nil {
					if nc := e.baseClass(f, val); nc != "" {
						return base + nc
					}
				}
			case *ssa.FreeVar:
				for k2, fv := range f.FreeVars {
					if fv == cell {
						return base + fmt.Sprintf("#FVC%d", k2)
					}
				}
			}
			return base
		}
		if nc := e.baseClass(f, b); nc != "" {
			return base + nc
		}
		return base
	}
	return base
}

func (e *Engine) callEffects(f *ssa.Function, c *ssa.CallCommon) []string {
	var out []string
	var curClosure *ssa.MakeClosure
	var addFn func(g *ssa.Function)
	addFn = func(g *ssa.Function) {
		if ct := e.contracts.Funcs[e.keyOf(g)]; ct != nil && ct.HasMod {
			out = append(out, ct.Modifies...)
			return
		}
		for _, k := range e.effectList(g) {
			if strings.HasPrefix(k, "PARAM:") {
				continue
			}
			out = append(out, e.rebase(f, g, c, curClosure, k))
		}
	}
	// resolve the parametric effects of a static callee against the actual arguments
	resolveParams := func(g *ssa.Function) {
		for _, k := range e.effectList(g) {
			if !strings.HasPrefix(k, "PARAM:") {
				continue
			}
			var idx int
			fmt.Sscanf(k, "PARAM:%d", &idx)
			if idx >= len(c.Args) {
				out = append(out, callbackEffects...)
				continue
			}
			arg := c.Args[idx]
			for {
				ct, ok := arg.(*ssa.ChangeType)
				if !ok {
					break
				}
				arg = ct.X
			}
			switch av := arg.(type) {
			case *ssa.MakeClosure:
				curClosure = av
				addFn(av.Fn.(*ssa.Function))
				curClosure = nil
			case *ssa.Function:
				addFn(av)
			case *ssa.Parameter:
				// passed on from our own parameter: stays parametric
				for i, q := range f.Params {
					if q == av {
						out = append(out, fmt.Sprintf("PARAM:%d", i))
					}
				}
			default:
				if sig, ok := c.Args[idx].Type().Underlying().(*types.Signature); ok {
					for _, h := range e.sigFuncs[sigKey(sig)] {
						addFn(h)
					}
				}
				out = append(out, callbackEffects...)
			}
		}
	}
	if c.IsInvoke() {
		// class hierarchy over repo types
		it, _ := c.Value.Type().Underlying().(*types.Interface)
		found := false
		if it != nil {
			for _, g := range e.funcs {
				if g.Signature.Recv() == nil || g.Name() != c.Method.Name() {
					continue
				}
				if types.Implements(g.Signature.Recv().Type(), it) {
					addFn(g)
					found = true
				}
			}
		}
		_ = found
		out = append(out, callbackEffects...)
		return out
	}
	switch cv := c.Value.(type) {
	case *ssa.Builtin:
		switch cv.Name() {
		case "append":
			if st, ok := c.Args[0].Type().Underlying().(*types.Slice); ok {
				return []string{e.u.arrKey(st.Elem())}
			}
		case "copy":
			if st, ok := c.Args[0].Type().Underlying().(*types.Slice); ok {
				return []string{e.u.arrKey(st.Elem())}
			}
		case "delete":
			md, mv, _, _ := e.mapKeys(c.Args[0].Type())
			return []string{md, mv}
		case "close":
			return []string{"G|chan.closed|Bool"}
		}
		return nil
	case *ssa.Function:
		if e.isRepoFn(cv) {
			addFn(cv)
			resolveParams(cv)
			return out
		}
		// closures handed to external code may be called by it
		for _, a := range c.Args {
			if mc, ok := a.(*ssa.MakeClosure); ok {
				curClosure = mc
				addFn(mc.Fn.(*ssa.Function))
				curClosure = nil
			}
		}
		return append(out, e.externalEffects(f, cv, c)...)
	case *ssa.MakeClosure:
		curClosure = cv
		addFn(cv.Fn.(*ssa.Function))
		curClosure = nil
		return out
	}
	// a call through a function-typed parameter is parametric: its effect is added at each call site
	// of this function from the actual argument
	if prm, ok := c.Value.(*ssa.Parameter); ok {
		for i, q := range f.Params {
			if q == prm {
				return append(out, fmt.Sprintf("PARAM:%d", i))
			}
		}
	}
	// dynamic call through a function value: all address-taken repo functions of that signature
	if sig, ok := c.Value.Type().Underlying().(*types.Signature); ok {
		for _, g := range e.sigFuncs[sigKey(sig)] {
			addFn(g)
		}
	}
	out = append(out, callbackEffects...)
	return out
}

// externalEffects: heap keys an external (non-repo) function may write.
func (e *Engine) externalEffects(caller, f *ssa.Function, c *ssa.CallCommon) []string {
	name := f.String()
	if pureExternal(name) {
		return nil
	}
	switch {
	case name == "io.WriteString", name == "io.Copy":
		return []string{"BD", "BL", "EXT", "X|wfail|Bool", "X|wafterfail|Bool", "MD|Int|Val|map_string_stick.Value", "MV|Int|Val|map_string_stick.Value"}
	case strings.HasPrefix(name, "(*bytes.Buffer)."), strings.HasPrefix(name, "fmt.Fprint"):
		// a buffer allocated by the calling function itself: nothing that existed before the caller ran changes
		if c != nil && len(c.Args) > 0 && caller != nil && e.baseClass(caller, c.Args[0]) == "#FRESH" {
			return []string{"BD#FRESH", "BL#FRESH", "EXT"}
		}
		return []string{"BD", "BL", "EXT"}
	case name == "(*reflect.MapIter).Next":
		// the position of this iterator only (ghost state of the receiver), classified relative to the caller
		if c != nil && len(c.Args) > 0 && caller != nil {
			if cls := e.baseClass(caller, c.Args[0]); cls == "#FRESH" || strings.HasPrefix(cls, "#P") {
				return []string{"G|reflect.MapIter.pos|Int" + cls}
			}
		}
		return []string{"G|reflect.MapIter.pos|Int"}
	case name == "(*reflect.MapIter).Key", name == "(*reflect.MapIter).Value":
		return nil
	case name == "os.Open", name == "(*os.File).Close":
		return []string{"X|openfiles|Int"}
	case name == "sort.Strings":
		return []string{e.u.arrKey(types.Typ[types.String])}
	case strings.HasPrefix(name, "(reflect.Value).Set"):
		return []string{"EXT"}
	case name == "(reflect.Value).Call":
		return callbackEffects
	}
	// unknown external: may call back through interfaces
	return callbackEffects
}

func pureExternal(name string) bool {
	for _, p := range []string{"strings.", "unicode.", "unicode/utf8.", "strconv.", "math.", "errors.New", "fmt.Sprintf", "fmt.Errorf", "fmt.Sprint",
		"(*regexp.Regexp).", "regexp.", "path/filepath.", "(reflect.Value).", "reflect.", "(*reflect.rtype).", "(reflect.Type).", "(github.com/shopspring/decimal.Decimal).",
		"bytes.NewReader", "bytes.NewBufferString", "io/ioutil.ReadAll", "io.ReadAll", "encoding/json.", "net/url.", "(time.Time).", "time.", "html."} {
		if strings.HasPrefix(name, p) {
			if name == "(reflect.Value).Set" || name == "(reflect.Value).Call" {
				return false
			}
			return true
		}
	}
	return false
}
