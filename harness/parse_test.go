package parse

// Replay harness for the parser properties (C01, C03, C14, C19, C20): injected with `go test -overlay`.
// Inputs: STICKVC_INPUTS (JSON list of template sources derived from the solver model and the
// obligation's witness family) plus a bounded enumeration of fragment sequences seeded with the bytes
// of the model (STICKVC_CANDIDATES). Each input is parsed with a watchdog; the input being parsed is
// written to STICKVC_LAST before the call so that a panic in the tokeniser goroutine (which cannot be
// recovered) still identifies its input.

import (
	"encoding/json"
	"fmt"
	"os"
	"runtime"
	"strings"
	"testing"
	"time"
)

func tryParse(src string, last string) (verdict string) {
	if last != "" {
		os.WriteFile(last, []byte(src), 0644)
	}
	done := make(chan string, 1)
	go func() {
		defer func() {
			if r := recover(); r != nil {
				done <- fmt.Sprintf("panic: %v", r)
			}
		}()
		_, err := Parse(src)
		if err != nil {
			done <- "error"
		} else {
			done <- "ok"
		}
	}()
	select {
	case v := <-done:
		return v
	case <-time.After(1500 * time.Millisecond):
		return "hang"
	}
}

func TestStickvcReplayParse(t *testing.T) {
	var inputs []string
	json.Unmarshal([]byte(os.Getenv("STICKVC_INPUTS")), &inputs)
	var cps []int
	json.Unmarshal([]byte(os.Getenv("STICKVC_CANDIDATES")), &cps)
	last := os.Getenv("STICKVC_LAST")
	frags := []string{"{{", "}}", "{%", "%}", "{#", "#}", "-", " ", "a", "1", "\"", "'", ".", "%", "(", ")", "[", "]", "{", "}", "|", "?", ":", ",", "#{", "\n", "\r",
		"if", "endif", "for", "in", "endfor", "not", "and", "is", "embed", "verbatim", "block", "x"}
	for _, cp := range cps {
		if cp > 0 && cp < 256 {
			frags = append(frags, string([]byte{byte(cp)}))
		}
	}
	depth := 3
	if os.Getenv("STICKVC_TIER") == "thorough" {
		depth = 4
	}
	var gen func(prefix string, d int)
	hangs := 0
	check := func(src string) {
		if hangs > 20 {
			return
		}
		before := runtime.NumGoroutine()
		v := tryParse(src, last)
		if v == "hang" {
			hangs++
			fmt.Printf("REPLAY-FAIL class=parse/hang input=%q\n", src)
			t.Fail()
			return
		}
		if strings.HasPrefix(v, "panic") {
			fmt.Printf("REPLAY-FAIL class=parse/panic input=%q %s\n", src, v)
			t.Fail()
			return
		}
		_ = before
	}
	for _, in := range inputs {
		check(in)
	}
	n := 0
	gen = func(prefix string, d int) {
		if d == 0 {
			return
		}
		for _, f := range frags {
			s := prefix + f
			n++
			check(s)
			gen(s, d-1)
		}
	}
	gen("", depth)
	// goroutine balance after everything returned (C19)
	time.Sleep(100 * time.Millisecond)
	fmt.Printf("REPLAY-DONE inputs=%d enumerated=%d goroutines=%d\n", len(inputs), n, runtime.NumGoroutine())
}
