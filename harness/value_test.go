package stick

// Replay harness for C15 (injected with `go test -overlay`). A failed coercion obligation names a
// dynamic type tag; the concrete counterpart is this catalogue of Go values of every supported kind
// at boundary values, typed nil pointers, interface implementers and safe wrappers. The oracle is the
// property statement itself (uniformity across numeric types, wrapper transparency, documented
// fallbacks, round trip), independent of the contracts.

import (
	"fmt"
	"math"
	"testing"
	"time"

	"github.com/shopspring/decimal"
)

type hStr struct{ s string }

func (h hStr) String() string { return h.s }

type hNum struct{ f float64 }

func (h hNum) Number() float64 { return h.f }

type hBool struct{ b bool }

func (h hBool) Boolean() bool { return h.b }

func safely(name string, t *testing.T, f func()) {
	defer func() {
		if r := recover(); r != nil {
			fmt.Printf("REPLAY-FAIL class=value/panic case=%s panic=%v\n", name, r)
			t.Fail()
		}
	}()
	f()
}

func TestStickvcReplayValue(t *testing.T) {
	ints := []int64{0, 1, 2, 7, 100, 127, 255, 999999}
	for _, n := range ints {
		n := n
		vals := []Value{int(n), int64(n), uint(n), uint64(n), float32(n), float64(n), uint32(n), int32(n), uint16(n % 65536), int16(n % 32768)}
		if n < 128 {
			vals = append(vals, int8(n), uint8(n))
		}
		safely(fmt.Sprintf("uniform %d", n), t, func() {
			for _, v := range vals {
				want := float64(n)
				switch v.(type) {
				case uint16:
					want = float64(n % 65536)
				case int16:
					want = float64(n % 32768)
				}
				if got := CoerceNumber(v); got != want {
					fmt.Printf("REPLAY-FAIL class=value/number input=%T(%v) got=%v want=%v\n", v, v, got, want)
					t.Fail()
				}
				if got := CoerceBool(v); got != (want > 0) {
					fmt.Printf("REPLAY-FAIL class=value/bool input=%T(%v) got=%v\n", v, v, got)
					t.Fail()
				}
				if got, w := CoerceString(v), fmt.Sprintf("%d", int64(want)); got != w {
					fmt.Printf("REPLAY-FAIL class=value/string input=%T(%v) got=%q want=%q\n", v, v, got, w)
					t.Fail()
				}
			}
		})
	}
	var np *time.Time
	var ns *hStr
	var nn *hNum
	var nb *hBool
	catalogue := []Value{nil, true, false, "", "x", "12", "1.5", "abc", -3, int8(-1), 2.5, -0.25, math.MaxInt64, uint64(math.MaxUint64),
		[]int{1}, map[string]int{"a": 1}, struct{ A int }{1}, np, ns, nn, nb, hStr{"7"}, hStr{""}, &hStr{"2"}, hNum{3}, hNum{-1}, hBool{true}, hBool{false},
		decimal.NewFromFloat(1.25), decimal.Zero, complex(1, 2), make(chan int), func() {}}
	for i, v := range catalogue {
		v := v
		safely(fmt.Sprintf("catalogue[%d] %T", i, v), t, func() {
			s, n, b := CoerceString(v), CoerceNumber(v), CoerceBool(v)
			w := NewSafeValue(v, "html")
			ww := NewSafeValue(w, "js")
			for _, sv := range []Value{w, ww} {
				if CoerceString(sv) != s || (CoerceNumber(sv) != n && !(math.IsNaN(n))) || CoerceBool(sv) != b {
					fmt.Printf("REPLAY-FAIL class=value/safe input=%T(%v)\n", v, v)
					t.Fail()
				}
			}
		})
	}
	safely("fallbacks", t, func() {
		for _, v := range []Value{nil, []int{1}, map[string]int{}, struct{}{}, np, make(chan int)} {
			if CoerceString(v) != "" || CoerceNumber(v) != 0 || CoerceBool(v) != false {
				fmt.Printf("REPLAY-FAIL class=value/fallback input=%T\n", v)
				t.Fail()
			}
		}
		if CoerceString(true) != "1" || CoerceString(false) != "" || CoerceNumber(true) != 1 || CoerceNumber(false) != 0 {
			fmt.Printf("REPLAY-FAIL class=value/boolrules\n")
			t.Fail()
		}
		if CoerceNumber("12") != 12 || CoerceNumber("1.5") != 1.5 || CoerceNumber("abc") != 0 {
			fmt.Printf("REPLAY-FAIL class=value/numericstring\n")
			t.Fail()
		}
		for _, f := range []float64{0, 1, -1, 0.5, 1e6, 1e21, 123456.789, math.SmallestNonzeroFloat64, math.MaxFloat64} {
			if CoerceNumber(CoerceString(f)) != f {
				fmt.Printf("REPLAY-FAIL class=value/roundtrip input=%v\n", f)
				t.Fail()
			}
		}
	})
	fmt.Println("REPLAY-DONE")
}
