package twig

// Replay harness for the executor properties (C02 and friends), injected with `go test -overlay` into
// package twig so that both the core and the Twig environment (filters, auto-escaping) are reachable.
// Templates: STICKVC_INPUTS (JSON list; the witness family of the property) plus a fixed corpus built
// from every tag and operator x a catalogue of context values. Oracle: Execute returns (no panic, no
// hang); the output is not inspected here.

import (
	"bytes"
	"encoding/json"
	"fmt"
	"os"
	"testing"
	"time"

	"github.com/tyler-sommer/stick"
)

type xS struct {
	Pub  int
	priv int
}

func (xS) M(s string) string { return s }

func runTpl(env *stick.Env, src string, ctx map[string]stick.Value) (verdict string) {
	done := make(chan string, 1)
	go func() {
		defer func() {
			if r := recover(); r != nil {
				done <- fmt.Sprintf("panic: %v", r)
			}
		}()
		var b bytes.Buffer
		if err := env.Execute(src, &b, ctx); err != nil {
			done <- "error"
			return
		}
		done <- "ok"
	}()
	select {
	case v := <-done:
		return v
	case <-time.After(2 * time.Second):
		return "hang"
	}
}

func TestStickvcReplayExec(t *testing.T) {
	var inputs []string
	json.Unmarshal([]byte(os.Getenv("STICKVC_INPUTS")), &inputs)
	var np *xS
	sl := []int{1, 2, 3}
	ctx := map[string]stick.Value{
		"n": nil, "t": true, "f": false, "i": 3, "z": 0, "fl": 2.5, "s": "str", "e": "", "num": "12",
		"arr": []int{1, 2, 3}, "earr": []int{}, "parr": &sl, "h": map[string]int{"a": 1}, "hi": map[int]string{1: "x"},
		"vh": map[string]stick.Value{"a": 1}, "nh": map[string]stick.Value(nil), "obj": xS{Pub: 1, priv: 2}, "pobj": &xS{Pub: 2}, "np": np,
	}
	vars := []string{"n", "t", "f", "i", "z", "fl", "s", "e", "num", "arr", "earr", "parr", "h", "hi", "vh", "nh", "obj", "pobj", "np"}
	ops := []string{"+", "-", "*", "/", "//", "%", "**", "~", "==", "!=", "<", "<=", ">", ">=", "in", "not in", "and", "or", "..", "b-and", "b-or", "b-xor", "starts with", "ends with", "matches"}
	filters := []string{"abs", "batch(2)", "batch(0)", "capitalize", "date('Y')", "default('d')", "first", "format(1)", "join(',')", "json_encode", "keys", "last", "length", "lower", "merge({'a':1})", "merge([1])", "nl2br", "number_format(2)", "raw", "replace({'a':'b'})", "reverse", "round", "round(1,'ceil')", "slice(1,2)", "slice(-1)", "sort", "split(',')", "striptags", "title", "trim", "upper", "url_encode", "escape", "escape('js')"}
	var corpus []string
	corpus = append(corpus, inputs...)
	for _, a := range vars {
		corpus = append(corpus, "{{ "+a+" }}", "{{ -"+a+" }}", "{{ not "+a+" }}", "{{ "+a+".x }}", "{{ "+a+"[0] }}", "{{ "+a+"['a'] }}", "{{ "+a+"[1.5] }}", "{{ "+a+"[null] }}", "{{ "+a+".M('x') }}", "{{ "+a+".M(1) }}", "{{ "+a+".M(null) }}", "{{ "+a+".priv }}",
			"{% for k, v in "+a+" %}{{ loop.index }}{{ k }}{{ v }}{% else %}none{% endfor %}", "{% for v in "+a+" if v %}{{ v }}{% endfor %}", "{% if "+a+" %}y{% elseif z %}z{% else %}n{% endif %}", "{{ "+a+" ? 1 : 2 }}", "{% set q = "+a+" %}{{ q }}", "{{ "+a+" is defined }}")
		for _, f := range filters {
			corpus = append(corpus, "{{ "+a+"|"+f+" }}")
		}
		for _, b := range []string{"z", "i", "s", "arr", "n", "fl", "e"} {
			for _, op := range ops {
				corpus = append(corpus, "{{ "+a+" "+op+" "+b+" }}")
			}
		}
	}
	corpus = append(corpus, "{{ 3..1 }}", "{{ 'NaN'..'1' }}", "{{ 1..1e12 }}", "{{ 5 % 0 }}", "{{ 5 % 0.5 }}", "{{ ''|capitalize }}", "{{ []|first }}", "{{ []|last }}",
		"{% filter upper %}x{% endfilter %}", "{% macro m(a, b) %}{{ a }}{{ b }}{% endmacro %}{{ _self.m(1) }}{{ _self.m(1,2,3) }}", "{{ block('nope') }}", "{{ parent() }}", "{% block b %}{{ parent() }}{% endblock %}",
		"{% include 'x {{ i }}' %}", "{% include s with {'a': 1} only %}", "{% embed 'a{% block b %}b{% endblock %}' %}{% block b %}c{% endblock %}{% endembed %}", "{% use 'x' %}", "{% import 'x' as m %}{{ m.nope() }}", "{% from 'x' import nope %}", "{% do 1 %}", "{% verbatim %}{{ x }}{% endverbatim %}")
	envs := map[string]*stick.Env{"twig": New(nil), "core": stick.New(nil)}
	bad := 0
	for name, env := range envs {
		for _, src := range corpus {
			v := runTpl(env, src, ctx)
			if v == "hang" || (len(v) > 5 && v[:5] == "panic") {
				bad++
				if bad <= 25 {
					fmt.Printf("REPLAY-FAIL class=exec/%s env=%s template=%q %s\n", v[:4], name, src, v)
				}
				t.Fail()
			}
		}
	}
	fmt.Printf("REPLAY-DONE templates=%d envs=%d failures=%d\n", len(corpus), len(envs), bad)
}
