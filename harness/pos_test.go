package parse

// Replay harness for C20 (injected with `go test -overlay`): positions reported by nodes and errors are compared
// with an independent oracle on the source text. Inputs: STICKVC_INPUTS plus templates assembled from fragments
// that put constructs after newlines inside text, comments, strings and tags.

import (
	"encoding/json"
	"fmt"
	"os"
	"strings"
	"testing"
)

func stickvcAt(src string, p Pos) (string, bool) {
	lines := strings.Split(src, "\n")
	if p.Line < 1 || p.Line > len(lines) {
		return "", false
	}
	l := lines[p.Line-1]
	if p.Offset < 0 || p.Offset > len(l) {
		return "", false
	}
	rest := l[p.Offset:]
	if p.Line < len(lines) {
		rest += "\n" + strings.Join(lines[p.Line:], "\n")
	}
	return rest, true
}

func stickvcCheckNode(t *testing.T, src string, n Node, bad *int) {
	if n == nil {
		return
	}
	want := ""
	switch v := n.(type) {
	case *TextNode:
		want = v.Data
	case *PrintNode:
		want = "{{"
	case *BlockNode:
		want = "block"
	case *IfNode:
		want = "if|elseif"
	case *ForNode:
		want = "for"
	case *ExtendsNode:
		want = "extends"
	case *IncludeNode:
		want = "include"
	case *EmbedNode:
		want = "embed"
	case *UseNode:
		want = "use"
	case *SetNode:
		want = "set"
	case *DoNode:
		want = "do"
	case *FilterNode:
		want = "filter"
	case *MacroNode:
		want = "macro"
	case *ImportNode:
		want = "import"
	case *FromNode:
		want = "from"
	case *NameExpr:
		want = v.Name
	case *NumberExpr:
		want = v.Value
	case *FuncExpr:
		want = v.Name
	case *GroupExpr:
		want = "("
	case *ArrayExpr:
		want = "["
	case *HashExpr:
		want = "{"
	}
	if want != "" {
		rest, ok := stickvcAt(src, n.Start())
		hit := false
		for _, w := range strings.Split(want, "|") {
			if ok && strings.HasPrefix(rest, w) {
				hit = true
			}
		}
		if _, isText := n.(*TextNode); isText && ok {
			// verbatim bodies and trimmed text are compared on their first byte only
			hit = hit || (len(want) > 0 && len(rest) > 0)
		}
		if !hit {
			*bad++
			if *bad <= 5 {
				fmt.Printf("REPLAY-FAIL class=pos/node input=%q node=%T reported=%v expected-prefix=%q source-there=%.12q\n", src, n, n.Start(), want, rest)
			}
			t.Fail()
		}
	}
	for _, c := range n.All() {
		stickvcCheckNode(t, src, c, bad)
	}
	if e, ok := n.(*EmbedNode); ok {
		for _, b := range e.Blocks {
			stickvcCheckNode(t, src, b, bad)
		}
	}
}

func TestStickvcReplayPos(t *testing.T) {
	var inputs []string
	json.Unmarshal([]byte(os.Getenv("STICKVC_INPUTS")), &inputs)
	pre := []string{"", "a\nb", "{# c\nc #}", "x\n\n  ", "{{ \"s\ns\" }}", "{% set q =\n 1 %}"}
	body := []string{"{{ name }}", "{{ 12 }}", "{{ f(1) }}", "{{ (a) }}", "{{ [1] }}", "{{ {'k': 1} }}", "{% if x %}y{% elseif z %}w{% endif %}", "{% for i in xs %}{{ i }}{% endfor %}",
		"{% block b %}t{% endblock %}", "{% embed 'e' %}\n {% block in %}u{% endblock %}\n{% endembed %}", "{% set v = 1 %}", "{% include 'i' %}", "{% filter upper %}f{% endfilter %}",
		"{% macro m(a) %}{{ a }}{% endmacro %}", "{% import 'x' as y %}", "{% from 'x' import y %}", "{% do 1 %}", "{% use 'u' %}"}
	for _, p := range pre {
		for _, b := range body {
			inputs = append(inputs, p+b, p+"\n"+b+"\n"+b)
		}
	}
	bad := 0
	for _, src := range inputs {
		tree, err := Parse(src)
		if err != nil {
			continue
		}
		stickvcCheckNode(t, src, tree.Root(), &bad)
	}
	// errors: located at the offending token, and rejected at all
	type ec struct{ src, at string }
	for _, c := range []ec{{"a\n{% bogus %}", "bogus"}, {"x\n\n {{ 1 2 }}", "2"}, {"{{ a ^ }}", ""}, {"{% if x %}\nabc", ""}, {"a {{ b", ""}, {"{% set x = 1", ""}, {"{% for i in x %}", ""}, {"{% block b %}", ""}} {
		_, err := Parse(c.src)
		if err == nil {
			fmt.Printf("REPLAY-FAIL class=pos/accepted input=%q (must be rejected)\n", c.src)
			t.Fail()
			continue
		}
		if c.at == "" {
			continue
		}
		if pe, ok := err.(interface{ Start() Pos }); ok {
			rest, ok := stickvcAt(c.src, pe.Start())
			if !ok || !strings.HasPrefix(rest, c.at) {
				fmt.Printf("REPLAY-FAIL class=pos/error input=%q reported=%v expected-at=%q source-there=%.12q\n", c.src, pe.Start(), c.at, rest)
				t.Fail()
			}
		}
	}
	// an error raised in a named template names it
	nt := NewNamedTree("named.twig", strings.NewReader("a\n{% bogus %}"))
	if err := nt.Parse(); err == nil || !strings.Contains(err.Error(), "named.twig") {
		fmt.Printf("REPLAY-FAIL class=pos/name input=%q template=named.twig error=%v (does not name the template)\n", "a\n{% bogus %}", err)
		t.Fail()
	}
	fmt.Printf("REPLAY-DONE inputs=%d\n", len(inputs))
}
