package stick

// Replay harness for C16 / C06 (injected with `go test -overlay`): containers of every supported shape
// x keys of every kind x argument lists; the oracle is the property statement (never panics; element
// when it exists, error otherwise; iteration visits every element once with consistent metadata; Len,
// IsIterable and Iterate agree).

import (
	"fmt"
	"math"
	"testing"
)

type aInner struct{ X int }
type aOuter struct{ *aInner }
type aKey struct{ A interface{} }

type aS struct {
	Pub  int
	priv int
	F    func() int
}

func (aS) M0() int            { return 1 }
func (aS) M1(s string) string { return s }
func (*aS) PM() int           { return 2 }
func (aS) V(xs ...int) int    { return len(xs) }
func (aS) P(p *int) bool      { return p == nil }

func TestStickvcReplayAttr(t *testing.T) {
	ip := 5
	var nilS *aS
	var nilSl *[]int
	var nilM map[string]int
	containers := []Value{nil, map[string]int{"a": 1}, map[int]string{1: "x"}, map[float64]int{1: 1}, map[interface{}]int{"k": 1}, nilM,
		[]int{1, 2, 3}, []int{}, [2]string{"a", "b"}, &[]int{7}, nilSl, aS{Pub: 1, priv: 2}, &aS{Pub: 3}, nilS, "str", 3, &ip, []Value{nil, 1},
		map[float64]string{math.NaN(): "x", 1: "y"}, aOuter{}, &aOuter{}, aOuter{&aInner{7}}, map[interface{}]int{aKey{1}: 1}}
	keys := []Value{nil, "a", "Pub", "priv", "F", "M0", "M1", "PM", "V", "P", 0, 1, 1.0, -1, 2.5, 99, true, "0", []int{1}, "X", []Value{1, 2}, map[string]Value{"a": 1}, aKey{1}, aKey{[]int{1}}, math.NaN()}
	argls := [][]Value{{}, {"s"}, {1}, {nil}, {"a", "b"}, {1.5}}
	for _, c := range containers {
		for _, k := range keys {
			for _, a := range argls {
				func() {
					defer func() {
						if r := recover(); r != nil {
							fmt.Printf("REPLAY-FAIL class=attr/panic container=%T(%v) key=%T(%v) args=%v panic=%v\n", c, c, k, k, a, r)
							t.Fail()
						}
					}()
					GetAttr(c, k, a...)
				}()
			}
		}
		func() {
			defer func() {
				if r := recover(); r != nil {
					fmt.Printf("REPLAY-FAIL class=attr/iterpanic container=%T(%v) panic=%v\n", c, c, r)
					t.Fail()
				}
			}()
			n := 0
			var last Loop
			cnt, err := Iterate(c, func(k, v Value, l Loop) (bool, error) {
				if l.Index != l.Index0+1 || l.Index0 != l.Length-l.Revindex || l.Revindex != l.Revindex0+1 || l.First != (n == 0) || l.Index0 != n || l.Last != (l.Revindex0 == 0) {
					fmt.Printf("REPLAY-FAIL class=attr/metadata container=%T(%v) loop=%+v n=%d\n", c, c, l, n)
					t.Fail()
				}
				n++
				last = l
				return false, nil
			})
			ln, lerr := Len(c)
			if (err == nil) != (lerr == nil) || (err == nil) != IsIterable(c) || (err == nil && (cnt != n || ln != n)) || (n > 0 && !last.Last) {
				fmt.Printf("REPLAY-FAIL class=attr/agree container=%T(%v) cnt=%d n=%d len=%d err=%v lerr=%v iter=%v\n", c, c, cnt, n, ln, err, lerr, IsIterable(c))
				t.Fail()
			}
		}()
	}
	fmt.Println("REPLAY-DONE")
}
