package filter

// Bounded stand-in for filter.filterBatch (C02): the index out[i] in its callback and the slice
// allocation depend on the relation between Len, the number of Iterate callbacks and a ceiling
// division, which the contracts do not carry. Exhaustive over lengths 0..64 (96 in the thorough tier)
// x items-per-batch -2..9 x fill value {absent, nil, "x"} x container kind {slice, map}.
// Labelled "bounded" in the evidence; never counted as proved.

import (
	"fmt"
	"os"
	"testing"

	"github.com/tyler-sommer/stick"
)

func TestStickvcBoundedBatch(t *testing.T) {
	maxLen := 64
	if os.Getenv("STICKVC_TIER") == "thorough" {
		maxLen = 96
	}
	cases := 0
	for n := 0; n <= maxLen; n++ {
		sl := make([]stick.Value, n)
		mp := map[string]stick.Value{}
		for i := range sl {
			sl[i] = i
			mp[fmt.Sprint(i)] = i
		}
		for per := -2; per <= 9; per++ {
			for _, args := range [][]stick.Value{{per}, {per, nil}, {per, "x"}, {}} {
				for _, c := range []stick.Value{sl, mp, &sl} {
					cases++
					func() {
						defer func() {
							if r := recover(); r != nil {
								fmt.Printf("REPLAY-FAIL class=bounded/batch len=%d per=%d args=%v container=%T panic=%v\n", n, per, args, c, r)
								t.Fail()
							}
						}()
						res := filterBatch(nil, c, args...)
						if per >= 2 && len(args) > 0 {
							out, ok := res.([][]stick.Value)
							if !ok {
								t.Errorf("batch(%d,%d): unexpected result %T", n, per, res)
								return
							}
							total := 0
							for i, b := range out {
								if len(b) > per || (len(b) == 0 && n > 0) {
									fmt.Printf("REPLAY-FAIL class=bounded/batch-shape len=%d per=%d batch %d has %d items\n", n, per, i, len(b))
									t.Fail()
								}
								total += len(b)
							}
							if total < n {
								fmt.Printf("REPLAY-FAIL class=bounded/batch-lost len=%d per=%d total=%d\n", n, per, total)
								t.Fail()
							}
						}
					}()
				}
			}
		}
	}
	fmt.Printf("BOUNDED-DONE cases=%d\n", cases)
}
