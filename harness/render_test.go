package twig

// Replay harness with output oracles (injected with `go test -overlay` into package twig). Each case is a small
// template set with the output the property statements demand; a failed obligation of property P is replayed
// against the cases of class P (STICKVC_PROP). The expectations are taken from the property texts, not from the
// code. A case that fails prints REPLAY-FAIL with the template and both outputs.

import (
	"bytes"
	"errors"
	"fmt"
	"os"
	"strings"
	"testing"

	"github.com/tyler-sommer/stick"
)

type rCase struct {
	prop string
	tpls map[string]string
	main string
	ctx  map[string]stick.Value
	want string
	err  bool // an error is expected (output not compared)
}

type failWriter struct {
	n, k   int
	buf    bytes.Buffer
	after  int // writes attempted after the failed one
	failed bool
}

func (w *failWriter) Write(p []byte) (int, error) {
	if w.failed {
		w.after++
	}
	w.n++
	if w.n == w.k {
		w.failed = true
		return 0, errors.New("stickvc: write failed")
	}
	return w.buf.Write(p)
}

func rCases() []rCase {
	m := func(kv ...string) map[string]string {
		r := map[string]string{}
		for i := 0; i+1 < len(kv); i += 2 {
			r[kv[i]] = kv[i+1]
		}
		return r
	}
	xs := []stick.Value{"a", "b", "c"}
	return []rCase{
		// C03
		{"C03", m("t.txt", "plain text, no delimiters \\ { } % #"), "t.txt", nil, "plain text, no delimiters \\ { } % #", false},
		{"C03", m("t.txt", "a{# c #}b{#- d -#}"), "t.txt", nil, "ab", false},
		{"C03", m("t.txt", "{% verbatim %}a{% if %}b{{ x }}{# c #}{% endverbatim %}z"), "t.txt", nil, "a{% if %}b{{ x }}{# c #}z", false},
		{"C03", m("t.txt", "x{% if t %}y{% for i in xs %}[{{ i }}]{% endfor %}w{% endif %}z"), "t.txt", map[string]stick.Value{"t": true, "xs": xs}, "xy[a][b][c]wz", false},
		// C04
		{"C04", m("t.txt", "{{ 10 - 1 - 2 - 3 }}|{{ ((10 - 1) - 2) - 3 }}|{{ -1 + 2 }}|{{ 1 < 2 ? 3 : 4 }}|{{ 2 * 3 + 4 * 5 }}|{{ 2 ** 3 ** 2 }}|{{ 1 + 2 * 3 - 4 }}|{{ 8 / 2 / 2 }}|{{ not true and false }}|{{ 16 / 4 / 2 / 2 }}|{{ 2 + 3 * 4 ** 2 }}|{{ true ? false ? 1 : 2 : 3 }}|{{ 1 == 1 and 2 == 2 or false }}|{{ 7 - 2 * 3 + 1 }}"), "t.txt", nil, "4|4|1|3|26|512|3|2||1|50|2|1|2", false},
		// C05
		{"C05", m("t.txt", "{{ 7 - 2 }}|{{ 2 * 3 + 1 }}|{{ 7 / 2 }}|{{ 7 // 2 }}|{{ 7 % 3 }}|{{ 2 ** 3 }}|{{ -x }}|{{ +x }}"), "t.txt", map[string]stick.Value{"x": 4}, "5|7|3.5|3|1|8|-4|4", false},
		{"C05", m("t.txt", "{{ 3 >= 3 }}|{{ 3 > 3 }}|{{ 2 <= 1 }}|{{ 1 < 2 }}|{{ 1 == '1' }}|{{ 1 != 2 }}|{{ not false }}|{{ true and false }}|{{ false or true }}"), "t.txt", nil, "1|||1|1|1|1||1", false},
		{"C05", m("t.txt", "{{ true ? 'a' : 'b' }}{{ 0 ? 'a' : 'b' }}|{{ 'a' ~ 'b' ~ 1 }}|{{ \"x#{1 + 1}y\" }}|{{ 1 in [1, 2] }}|{{ 3 not in [1, 2] }}|{{ 'ab' starts with 'a' }}|{{ 'ab' ends with 'a' }}|{{ 'abc' matches 'b' }}"), "t.txt", nil, "ab|ab1|x2y|1|1|1||1", false},
		{"C05", m("t.txt", "{{ {'k': 'v'}.k }}{{ [1, 2][1] }}|{{ (1..3)|join(',') }}|{{ ['a', 'b']|join('-') }}|{{ 5 b-and 3 }}{{ 5 b-or 2 }}{{ 5 b-xor 1 }}|{{ null }}|"), "t.txt", nil, "v2|1,2,3|a-b|174||", false},
		// C06
		{"C06", m("t.txt", "{% if a %}A{% elseif b %}B{% else %}C{% endif %}"), "t.txt", map[string]stick.Value{"a": false, "b": true}, "B", false},
		{"C06", m("t.txt", "{% if a %}A{% elseif b %}B{% else %}C{% endif %}"), "t.txt", map[string]stick.Value{"a": false, "b": false}, "C", false},
		{"C06", m("t.txt", "{% if a %}A{% endif %}|"), "t.txt", map[string]stick.Value{"a": 0}, "|", false},
		{"C06", m("t.txt", "{% for v in xs %}{{ loop.index }}{{ loop.index0 }}{{ loop.revindex }}{{ loop.revindex0 }}{{ loop.first }}{{ loop.last }}{{ loop.length }}{{ v }};{% else %}E{% endfor %}"), "t.txt", map[string]stick.Value{"xs": xs}, "103213a;21213b;321013c;", false},
		{"C06", m("t.txt", "{% for v in xs %}x{% else %}E{% endfor %}"), "t.txt", map[string]stick.Value{"xs": []stick.Value{}}, "E", false},
		{"C06", m("t.txt", "{% for v in nothing %}x{% else %}E{% endfor %}"), "t.txt", nil, "E", false},
		{"C06", m("t.txt", "{% for i in 1..4 if i > 2 %}{{ i }}{% endfor %}"), "t.txt", nil, "34", false},
		{"C06", m("t.txt", "{% for i in 5 %}x{% endfor %}"), "t.txt", nil, "", true},
		{"C06", m("t.txt", "{% for i in xs %}{% for j in xs %}{{ loop.parent.index }}{{ loop.index }} {% endfor %}{% endfor %}"), "t.txt", map[string]stick.Value{"xs": []stick.Value{1, 2}}, "11 12 21 22 ", false},
		// C07
		{"C07", m("t.txt", "{% set k = 'outer' %}{% for k, v in xs %}{{ k }}{% endfor %}[{{ k }}][{{ v }}][{{ loop }}]"), "t.txt", map[string]stick.Value{"xs": xs}, "012[outer][][]", false},
		{"C07", m("t.txt", "{% set n = 0 %}{% for v in xs %}{% set n = n + 1 %}{% set fresh = 1 %}{% endfor %}{{ n }}[{{ fresh }}]"), "t.txt", map[string]stick.Value{"xs": xs}, "3[]", false},
		{"C07", m("t.txt", "{% macro m(a, label) %}[{{ a }}{{ label }}]{% endmacro %}{% set label = 'L' %}{{ _self.m(1) }}{{ label }}[{{ a }}]"), "t.txt", nil, "[1]L[]", false},
		{"C07", m("t.txt", "{% if true %}{% set z = 5 %}{% endif %}{{ z }}"), "t.txt", nil, "5", false},
		// C08
		{"C08", m("t.txt", "a{% set v %}b{{ 1 }}c{% endset %}d{{ v }}e"), "t.txt", nil, "adb1ce", false},
		{"C08", m("t.txt", "a{% filter upper %}b{% set v %}c{% endset %}d{% endfilter %}e{{ v }}"), "t.txt", nil, "aBDec", false},
		{"C08", m("t.txt", "{% macro m() %}M{% endmacro %}a{% set v = _self.m() %}b{{ v }}c"), "t.txt", nil, "abMc", false},
		{"C08", m("t.txt", "{% block e %}{% endblock %}a{% block b %}B{% endblock %}c{% set v = block('b') %}d{{ block('e') }}e{{ v }}f"), "t.txt", nil, "aBcdeBf", false},
		// C09
		{"C09", m("base", "<{% block a %}A0{% endblock %}|{% block b %}B0{% endblock %}>", "mid", "{% extends 'base' %}{% block a %}A1({{ parent() }}){% endblock %}x", "top", "{% extends 'mid' %}{% block a %}A2({{ parent() }}){% endblock %}{% block b %}B2{% endblock %}junk"), "top", nil, "<A2(A1(A0))|B2>", false},
		{"C09", m("base", "{% for i in 1..2 %}{% block r %}r{{ i }}{% endblock %}{% endfor %}", "top", "{% extends 'base' %}{% block r %}R{{ i }}{% endblock %}"), "top", nil, "R1R2", false},
		{"C09", m("base", "[{% block o %}o{% block i %}i{% endblock %}{% endblock %}]", "top", "{% extends 'base' %}{% block i %}I{% endblock %}"), "top", nil, "[oI]", false},
		{"C09", m("base", "{% block a %}A{% endblock %}:{{ block('a') }}", "top", "{% extends name %}{% block a %}T{% endblock %}"), "top", map[string]stick.Value{"name": "base"}, "T:T", false},
		// C10
		{"C10", m("t.txt", "{% set v = 1 %}{% include 'inc' %}[{{ v }}][{{ w }}]", "inc", "({{ v }}{% set v = 2 %}{% set w = 3 %}{{ v }})"), "t.txt", nil, "(12)[1][]", false},
		{"C10", m("t.txt", "{% set v = 1 %}{% include 'inc' with {'x': 9} %}", "inc", "({{ v }}{{ x }})"), "t.txt", nil, "(19)", false},
		{"C10", m("t.txt", "{% set v = 1 %}{% include 'inc' with {'x': 9} only %}", "inc", "({{ v }}{{ x }})"), "t.txt", nil, "(9)", false},
		{"C10", m("t.txt", "{% block a %}HOST{% endblock %}{% embed 'emb' %}{% block b %}B1{% endblock %}{% endembed %}{% embed 'emb' %}{% endembed %}", "emb", "<{% block a %}a0{% endblock %}{% block b %}b0{% endblock %}>"), "t.txt", nil, "HOST<a0B1><a0b0>", false},
		// C11
		{"C11", m("t.txt", "{% macro m(a, b) %}[{{ a }},{{ b }}]{% endmacro %}{{ _self.m(1) }}{{ _self.m(1, 2, 3) }}{% import 't.txt' as lib %}{{ lib.m(4, 5) }}{% from 't.txt' import m as mm %}{{ mm(6, 7) }}"), "t.txt", nil, "[1,][1,2][4,5][6,7]", false},
		{"C11", m("t.txt", "{% macro m(a) %}<{{ a }}>{% endmacro %}{% set v = _self.m('x') ~ '!' %}{{ v }}"), "t.txt", nil, "<x>!", false},
		{"C11", m("t.txt", "{% import 'lib' as lib %}{{ lib.nope() }}", "lib", "{% macro m() %}{% endmacro %}"), "t.txt", nil, "", true},
		// C12
		{"C12", m("t.html", "{{ v }}{% if true %}{{ v }}{% endif %}{% for i in 1..1 %}{{ v }}{% endfor %}{% set c %}{{ v }}{% endset %}{{ c|raw }}"), "t.html", map[string]stick.Value{"v": "<&>"}, "&lt;&amp;&gt;&lt;&amp;&gt;&lt;&amp;&gt;&lt;&amp;&gt;", false},
		{"C12", m("t.html", "{% for i in none %}x{% else %}{{ v }}{% endfor %}{% if false %}{% else %}{{ v }}{% endif %}{% filter upper %}{{ v }}{% endfilter %}{% macro m(a) %}{{ a }}{% endmacro %}{% set r = _self.m(v) %}{{ r|raw }}"), "t.html", map[string]stick.Value{"v": "<"}, "&lt;&lt;&LT;&lt;", false},
		{"C12", m("noext", "{{ v }}"), "noext", map[string]stick.Value{"v": "<"}, "&lt;", false},
		{"C12", m("t.unknown", "{{ v }}"), "t.unknown", map[string]stick.Value{"v": "<"}, "&lt;", false},
		{"C12", m("t.txt", "{{ v }}"), "t.txt", map[string]stick.Value{"v": "<"}, "<", false},
		{"C12", m("t.html", "{{ v|raw }}{{ v|escape }}"), "t.html", map[string]stick.Value{"v": "<"}, "<&lt;", false},
		{"C12", m("t.js", "{{ v }}"), "t.js", map[string]stick.Value{"v": "a'b"}, "a\\u0027b", false},
	}
}

func TestStickvcReplayRender(t *testing.T) {
	prop := os.Getenv("STICKVC_PROP")
	n := 0
	for _, c := range rCases() {
		if prop != "" && c.prop != prop && prop != "all" {
			continue
		}
		n++
		fmt.Printf("REPLAY-CASE class=render/%s templates=%q main=%s\n", c.prop, c.tpls, c.main)
		out, err, pan := func() (out string, err error, pan interface{}) {
			defer func() { pan = recover() }()
			env := New(&stick.MemoryLoader{Templates: c.tpls})
			var b bytes.Buffer
			err = env.Execute(c.main, &b, c.ctx)
			return b.String(), err, nil
		}()
		switch {
		case pan != nil:
			fmt.Printf("REPLAY-FAIL class=render/%s templates=%q main=%s panic=%v\n", c.prop, c.tpls, c.main, pan)
			t.Fail()
		case c.err && err == nil:
			fmt.Printf("REPLAY-FAIL class=render/%s templates=%q main=%s expected an error, got output %q\n", c.prop, c.tpls, c.main, out)
			t.Fail()
		case !c.err && (err != nil || out != c.want):
			fmt.Printf("REPLAY-FAIL class=render/%s templates=%q main=%s want=%q got=%q err=%v\n", c.prop, c.tpls, c.main, c.want, out, err)
			t.Fail()
		}
	}
	if prop == "C14" || prop == "all" {
		// formatting variants of the same template must render (or fail) alike
		rnd := func(src string) string {
			env := New(&stick.MemoryLoader{Templates: map[string]string{"t.txt": src, "inc": "I", "e": "<{% block b %}b{% endblock %}>"}})
			env.Functions["f"] = func(ctx stick.Context, args ...stick.Value) stick.Value { return fmt.Sprint(len(args)) }
			var b bytes.Buffer
			if err := env.Execute("t.txt", &b, map[string]stick.Value{"x": 5, "xs": []stick.Value{1, 2}, "h": map[string]stick.Value{"k": "v"}}); err != nil {
				return "ERR"
			}
			return b.String()
		}
		pairs := [][2]string{
			{"{{ x }}", "{{x}}"}, {"{{ x }}", "{{\tx\n}}"}, {"{{ x }}", "{{\r\nx\r\n}}"}, {"{{ x + 1 }}", "{{x+1}}"}, {"{{ x + 1 }}", "{{ x\n+\n1 }}"},
			{"{{ x and true }}", "{{ x and\ntrue }}"}, {"{{ not x }}", "{{ not\tx }}"}, {"{{ not (x) }}", "{{ not(x) }}"},
			{"{{ f() }}", "{{ f( ) }}"}, {"{{ f(1, 2) }}", "{{ f(1,2) }}"}, {"{{ f(1, 2) }}", "{{ f( 1 , 2 ) }}"}, {"{{ f(1, 2) }}", "{{ f(\n1,\n2\n) }}"},
			{"{{ [1, 2]|join(',') }}", "{{ [1,2]|join(',') }}"}, {"{{ [1, 2]|join(',') }}", "{{ [ 1 , 2 ]|join(',') }}"}, {"{{ [1, 2]|join(',') }}", "{{ [1, 2,]|join(',') }}"}, {"{{ [1, 2]|join(',') }}", "{{ [1, 2, ]|join(',') }}"}, {"{{ []|length }}", "{{ [ ]|length }}"},
			{"{{ {'a': 1}.a }}", "{{ { 'a' : 1 }.a }}"}, {"{{ {'a': 1}.a }}", "{{ {'a': 1,}.a }}"}, {"{{ {'a': 1}.a }}", "{{ {'a': 1, }.a }}"}, {"{{ {}|length }}", "{{ { }|length }}"},
			{"{{ 'a' }}", "{{ \"a\" }}"}, {"{{ 'a' ~ 'b' }}", "{{ \"a\" ~ \"b\" }}"},
			{"{% if x %}y{% endif %}", "{%if x%}y{%endif%}"}, {"{% if x %}y{% endif %}", "{%\nif\tx\r\n%}y{%   endif   %}"}, {"{% if x %}a{% else %}b{% endif %}", "{%if x%}a{%else%}b{%endif%}"},
			{"{% for i in xs %}{{ i }}{% endfor %}", "{%for i in xs%}{{i}}{%endfor%}"}, {"{% for k, v in xs %}{{ k }}{% endfor %}", "{% for k,v in xs %}{{ k }}{% endfor %}"}, {"{% for k, v in xs %}{{ k }}{% endfor %}", "{% for k , v in xs %}{{ k }}{% endfor %}"},
			{"{% set a = 1 %}{{ a }}", "{%set a=1%}{{a}}"}, {"{% include 'inc' %}", "{%include 'inc'%}"}, {"{% include 'inc' with {'a': 1} only %}", "{% include 'inc'   with   {'a':1}   only %}"},
			{"{% embed 'e' %}{% block b %}B{% endblock %}{% endembed %}", "{%embed 'e'%}{%block b%}B{%endblock%}{%endembed%}"}, {"{% embed 'e' %}{% endembed %}", "{% embed 'e' %}{% endembed%}"},
			{"a{{ x }}b", "a{{- x -}}b"}, {"{% if x %}y{% endif %}", "{%- if x -%}y{%- endif -%}"},
			{"{{ h.k }}", "{{ h[ 'k' ] }}"}, {"{{ h['k'] }}", "{{ h [ 'k' ] }}"}, {"{{ x|length }}", "{{ x | length }}"}, {"{{ x ? 1 : 2 }}", "{{ x?1:2 }}"}, {"{{ 1..3|join }}", "{{ 1 .. 3|join }}"},
			{"{% macro m(a, b) %}{{ a }}{% endmacro %}{{ _self.m(1) }}", "{% macro m( a , b ) %}{{ a }}{% endmacro %}{{ _self.m( 1 ) }}"},
			{"{% block b %}x{% endblock %}", "{%block b%}x{%endblock%}"}, {"{% filter upper %}x{% endfilter %}", "{%filter upper%}x{%endfilter%}"}, {"{% verbatim %}v{% endverbatim %}", "{%verbatim%}v{%endverbatim%}"},
		}
		for _, p := range pairs {
			if a, b := rnd(p[0]), rnd(p[1]); a != b || a == "ERR" {
				fmt.Printf("REPLAY-FAIL class=render/C14 %q renders %q but %q renders %q\n", p[0], a, p[1], b)
				t.Fail()
			}
		}
	}
	if prop == "C12" || prop == "all" {
		env := New(nil)
		var b bytes.Buffer
		err := env.Execute("Hello {{ v }}. Bye", &b, map[string]stick.Value{"v": "<"})
		if err != nil || b.String() != "Hello &lt;. Bye" {
			fmt.Printf("REPLAY-FAIL class=render/C12 inline template %q with v=\"<\": got %q err=%v, want %q\n", "Hello {{ v }}. Bye", b.String(), err, "Hello &lt;. Bye")
			t.Fail()
		}
	}
	if prop == "C17" || prop == "all" {
		// every fault point of the destination writer: error reported, prefix of the full output, nothing after the failed write
		tpls := map[string]string{"t.txt": "a{{ x }}b{% for i in xs %}[{{ i }}]{% endfor %}{% filter upper %}f{{ x }}{% endfilter %}{% include 'inc' %}z", "inc": "I{{ x }}J"}
		ctx := map[string]stick.Value{"x": "X", "xs": []stick.Value{1, 2}}
		env := New(&stick.MemoryLoader{Templates: tpls})
		var full bytes.Buffer
		if err := env.Execute("t.txt", &full, ctx); err != nil {
			fmt.Printf("REPLAY-FAIL class=render/C17 full run failed: %v\n", err)
			t.Fail()
		}
		for k := 1; k <= 40; k++ {
			w := &failWriter{k: k}
			err := env.Execute("t.txt", w, ctx)
			if w.failed && (err == nil || w.after > 0 || !strings.HasPrefix(full.String(), w.buf.String())) {
				fmt.Printf("REPLAY-FAIL class=render/C17 writer failing at write %d: err=%v writes-after-failure=%d written=%q full=%q\n", k, err, w.after, w.buf.String(), full.String())
				t.Fail()
			}
			w2 := &failWriter{k: 1000}
			serr := env.ExecuteSafe("t.txt", w2, map[string]stick.Value{"x": "X", "xs": 5})
			if serr == nil || w2.buf.Len() != 0 {
				fmt.Printf("REPLAY-FAIL class=render/C17 ExecuteSafe wrote %q on a failing rendering (err=%v)\n", w2.buf.String(), serr)
				t.Fail()
				break
			}
		}
		var safe bytes.Buffer
		if err := env.ExecuteSafe("t.txt", &safe, ctx); err != nil || safe.String() != full.String() {
			fmt.Printf("REPLAY-FAIL class=render/C17 ExecuteSafe output %q differs from Execute's %q (err=%v)\n", safe.String(), full.String(), err)
			t.Fail()
		}
	}
	fmt.Printf("REPLAY-DONE cases=%d\n", n)
}
