package stick

// Replay harness for C19 (injected with `go test -overlay`): every input (STICKVC_INPUTS, plus a fixed set of
// failing and succeeding templates) is parsed and executed 20 times with the string, memory and filesystem
// loaders; the goroutine count and the number of open descriptors must be back at their starting values
// (garbage collection is switched off so that finalizers cannot hide a leaked file).

import (
	"bytes"
	"encoding/json"
	"fmt"
	"io/ioutil"
	"os"
	"path/filepath"
	"runtime"
	"runtime/debug"
	"testing"
	"time"
)

func stickvcFDs() int {
	d, _ := ioutil.ReadDir("/proc/self/fd")
	return len(d)
}

func stickvcSettle(want int) int {
	n := runtime.NumGoroutine()
	for i := 0; i < 50 && n > want; i++ {
		time.Sleep(10 * time.Millisecond)
		n = runtime.NumGoroutine()
	}
	return n
}

func TestStickvcReplayLeak(t *testing.T) {
	defer debug.SetGCPercent(debug.SetGCPercent(-1))
	var inputs []string
	json.Unmarshal([]byte(os.Getenv("STICKVC_INPUTS")), &inputs)
	inputs = append(inputs, "plain", "{{ x }}", "{% bogus %} tail", "{{ ^ }} a {{ b }} c", "{{ 1", "{#", "{% if x %}a{% endif %}{% include 'missing' %}", "{{ nope() }}", "{% for i in 1..3 %}{{ i }}{% endfor %}")
	dir := t.TempDir()
	mem := map[string]string{}
	for i, src := range inputs {
		name := fmt.Sprintf("t%d.txt", i)
		ioutil.WriteFile(filepath.Join(dir, name), []byte(src), 0644)
		mem[name] = src
	}
	failed := false
	for i, src := range inputs {
		name := fmt.Sprintf("t%d.txt", i)
		for _, lc := range []struct {
			kind string
			env  *Env
			tpl  string
		}{{"string", New(nil), src}, {"memory", New(&MemoryLoader{Templates: mem}), name}, {"filesystem", New(NewFilesystemLoader(dir)), name}, {"filesystem-missing", New(NewFilesystemLoader(dir)), "nope-" + name}} {
			g0 := stickvcSettle(0)
			g0 = runtime.NumGoroutine()
			f0 := stickvcFDs()
			for k := 0; k < 20; k++ {
				func() {
					defer func() { recover() }()
					lc.env.Parse(lc.tpl)
					var b bytes.Buffer
					lc.env.Execute(lc.tpl, &b, map[string]Value{"x": 1})
				}()
			}
			g1 := stickvcSettle(g0)
			f1 := stickvcFDs()
			if g1 > g0 {
				failed = true
				fmt.Printf("REPLAY-FAIL class=leak/goroutine loader=%s input=%q goroutines before=%d after=%d\n", lc.kind, src, g0, g1)
			}
			if f1 > f0 {
				failed = true
				fmt.Printf("REPLAY-FAIL class=leak/fd loader=%s input=%q descriptors before=%d after=%d\n", lc.kind, src, f0, f1)
			}
		}
	}
	if failed {
		t.Fail()
	}
}
