package escape

// Replay harness for C13 (injected with `go test -overlay`; never written into /repo).
// Candidate inputs come from the solver model of a failed obligation (STICKVC_CANDIDATES, JSON
// list of code points); each is tried alone and followed by boundary characters. The oracle is
// the standard decoder of each context, written here from the HTML / ECMAScript / CSS Syntax /
// RFC 3986 rules — independent of the contracts.

import (
	"encoding/json"
	"fmt"
	"os"
	"strconv"
	"strings"
	"testing"
	"unicode/utf8"
)

func decodeHTML(s string) (string, bool) {
	var sb strings.Builder
	for i := 0; i < len(s); {
		if s[i] != '&' {
			sb.WriteByte(s[i])
			i++
			continue
		}
		j := strings.IndexByte(s[i:], ';')
		if j < 0 {
			return "", false
		}
		ent := s[i+1 : i+j]
		switch {
		case ent == "quot":
			sb.WriteByte('"')
		case ent == "amp":
			sb.WriteByte('&')
		case ent == "lt":
			sb.WriteByte('<')
		case ent == "gt":
			sb.WriteByte('>')
		case strings.HasPrefix(ent, "#x"):
			n, err := strconv.ParseInt(ent[2:], 16, 32)
			if err != nil {
				return "", false
			}
			sb.WriteRune(rune(n))
		case strings.HasPrefix(ent, "#"):
			n, err := strconv.Atoi(ent[1:])
			if err != nil {
				return "", false
			}
			sb.WriteRune(rune(n))
		default:
			return "", false
		}
		i += j + 1
	}
	return sb.String(), true
}

func isHex(b byte) bool {
	return (b >= '0' && b <= '9') || (b >= 'a' && b <= 'f') || (b >= 'A' && b <= 'F')
}

func decodeJS(s string) (string, bool) {
	var units []uint16
	for i := 0; i < len(s); {
		if s[i] != '\\' {
			r, w := utf8.DecodeRuneInString(s[i:])
			if r > 0xFFFF {
				r -= 0x10000
				units = append(units, uint16(0xD800+r>>10), uint16(0xDC00+r&0x3FF))
			} else {
				units = append(units, uint16(r))
			}
			i += w
			continue
		}
		if i+6 > len(s) || s[i+1] != 'u' {
			return "", false
		}
		n, err := strconv.ParseUint(s[i+2:i+6], 16, 16)
		if err != nil {
			return "", false
		}
		units = append(units, uint16(n))
		i += 6
	}
	var sb strings.Builder
	for i := 0; i < len(units); i++ {
		u := rune(units[i])
		if u >= 0xD800 && u <= 0xDBFF && i+1 < len(units) && units[i+1] >= 0xDC00 && units[i+1] <= 0xDFFF {
			sb.WriteRune(0x10000 + (u-0xD800)<<10 + rune(units[i+1]) - 0xDC00)
			i++
			continue
		}
		sb.WriteRune(u)
	}
	return sb.String(), true
}

// CSS Syntax Level 3, 4.3.7 "consume an escaped code point": 1-6 hex digits, then one optional whitespace.
func decodeCSS(s string) (string, bool) {
	var sb strings.Builder
	for i := 0; i < len(s); {
		if s[i] != '\\' {
			sb.WriteByte(s[i])
			i++
			continue
		}
		i++
		j := i
		for j < len(s) && j-i < 6 && isHex(s[j]) {
			j++
		}
		if j == i {
			return "", false
		}
		n, _ := strconv.ParseInt(s[i:j], 16, 32)
		sb.WriteRune(rune(n))
		if j < len(s) && (s[j] == ' ' || s[j] == '\n' || s[j] == '\t') {
			j++
		}
		i = j
	}
	return sb.String(), true
}

func decodeURL(s string) (string, bool) {
	var sb strings.Builder
	for i := 0; i < len(s); {
		if s[i] != '%' {
			sb.WriteByte(s[i])
			i++
			continue
		}
		if i+3 > len(s) {
			return "", false
		}
		n, err := strconv.ParseUint(s[i+1:i+3], 16, 8)
		if err != nil {
			return "", false
		}
		sb.WriteByte(byte(n))
		i += 3
	}
	return sb.String(), true
}

func alnum(b byte) bool {
	return (b >= '0' && b <= '9') || (b >= 'a' && b <= 'z') || (b >= 'A' && b <= 'Z')
}

type escCase struct {
	name   string
	fn     func(string) string
	decode func(string) (string, bool)
	alpha  func(out string) bool
}

func TestStickvcReplayEscape(t *testing.T) {
	var cps []int
	json.Unmarshal([]byte(os.Getenv("STICKVC_CANDIDATES")), &cps)
	skip := map[string]bool{}
	for _, k := range strings.Split(os.Getenv("STICKVC_SKIP"), ",") {
		skip[k] = true
	}
	cases := []escCase{
		{"HTML", HTML, decodeHTML, func(o string) bool {
			for i := 0; i < len(o); i++ {
				if strings.IndexByte("<>\"'", o[i]) >= 0 {
					return false
				}
				if o[i] == '&' {
					ok := false
					for _, e := range []string{"&quot;", "&amp;", "&#39;", "&lt;", "&gt;"} {
						if strings.HasPrefix(o[i:], e) {
							ok = true
						}
					}
					if !ok {
						return false
					}
				}
			}
			return true
		}},
		{"HTMLAttribute", HTMLAttribute, decodeHTML, func(o string) bool {
			for i := 0; i < len(o); i++ {
				if !alnum(o[i]) && strings.IndexByte(",-._&#;", o[i]) < 0 {
					return false
				}
			}
			return true
		}},
		{"JS", JS, decodeJS, func(o string) bool {
			for i := 0; i < len(o); i++ {
				if !alnum(o[i]) && strings.IndexByte(",._\\", o[i]) < 0 {
					return false
				}
			}
			return true
		}},
		{"CSS", CSS, decodeCSS, func(o string) bool {
			for i := 0; i < len(o); i++ {
				if !alnum(o[i]) && o[i] != '\\' && o[i] != ' ' {
					return false
				}
			}
			return true
		}},
		{"URL", URLQueryParam, decodeURL, func(o string) bool {
			for i := 0; i < len(o); i++ {
				if !alnum(o[i]) && strings.IndexByte("-._~%", o[i]) < 0 {
					return false
				}
			}
			return true
		}},
	}
	followers := []string{"", "B", "0", "f", " ", "a", "&", "\\", "%", ";"}
	var inputs []string
	for _, cp := range cps {
		if cp < 0 || cp > 0x10FFFF || (cp >= 0xD800 && cp <= 0xDFFF) {
			continue
		}
		for _, f := range followers {
			inputs = append(inputs, string(rune(cp))+f)
		}
		if cp < 256 {
			inputs = append(inputs, string([]byte{byte(cp)}))
		}
	}
	for _, in := range inputs {
		for _, c := range cases {
			out := c.fn(in)
			if !skip[c.name+"/alphabet"] && !c.alpha(out) {
				fmt.Printf("REPLAY-FAIL class=%s/alphabet input=%q output=%q\n", c.name, in, out)
				t.Fail()
			}
			if c.name == "HTMLAttribute" {
				ctrl := false
				for _, r := range in {
					if r <= 31 && r != 9 && r != 10 && r != 13 {
						ctrl = true
					}
				}
				if ctrl {
					continue
				}
			}
			want := in
			if !utf8.ValidString(in) {
				if c.name != "URL" {
					continue
				}
			}
			got, ok := c.decode(out)
			if !skip[c.name+"/decodable"] && (!ok || got != want) {
				fmt.Printf("REPLAY-FAIL class=%s/decodable input=%q output=%q decoded=%q\n", c.name, in, out, got)
				t.Fail()
			}
		}
	}
	fmt.Printf("REPLAY-DONE inputs=%d\n", len(inputs))
}
