package twig

// Replay harness for C18 (injected with `go test -overlay`, run with -race when the race detector is available):
// N goroutines execute and parse templates of different content types, with and without blocks, on ONE Twig
// environment, each with its own context map and writer; every result must equal the result of the same call run
// alone.

import (
	"bytes"
	"fmt"
	"sync"
	"testing"

	"github.com/tyler-sommer/stick"
)

func TestStickvcReplayRace(t *testing.T) {
	tpls := map[string]string{
		"a.html": "<p>{{ v }}</p>{% block b %}{{ v }}{% endblock %}",
		"b.js":   "var x = '{{ v }}';{% block b %}{{ v }}{% endblock %}",
		"c.txt":  "{{ v }}{% for i in 1..3 %}{{ v }}{% endfor %}",
		"d.css":  "{% extends 'e.css' %}{% block b %}{{ v }}{% endblock %}",
		"e.css":  "a{ {% block b %}{% endblock %} }{{ v }}",
	}
	env := New(&stick.MemoryLoader{Templates: tpls})
	names := []string{"a.html", "b.js", "c.txt", "d.css"}
	want := map[string]string{}
	for _, n := range names {
		var b bytes.Buffer
		if err := env.Execute(n, &b, map[string]stick.Value{"v": "<'&\">"}); err != nil {
			t.Fatalf("sequential %s: %v", n, err)
		}
		want[n] = b.String()
	}
	var wg sync.WaitGroup
	var mu sync.Mutex
	bad := 0
	for g := 0; g < 64; g++ {
		wg.Add(1)
		go func(g int) {
			defer wg.Done()
			defer func() {
				if r := recover(); r != nil {
					mu.Lock()
					if bad < 5 {
						fmt.Printf("REPLAY-FAIL class=race/panic goroutine=%d panic=%v\n", g, r)
					}
					bad++
					mu.Unlock()
				}
			}()
			for it := 0; it < 200; it++ {
				n := names[(g+it)%len(names)]
				var b bytes.Buffer
				err := env.Execute(n, &b, map[string]stick.Value{"v": "<'&\">"})
				if err != nil || b.String() != want[n] {
					mu.Lock()
					if bad < 5 {
						fmt.Printf("REPLAY-FAIL class=race/result template=%s concurrent=%q alone=%q err=%v\n", n, b.String(), want[n], err)
					}
					bad++
					mu.Unlock()
				}
				if _, err := env.Parse(n); err != nil {
					mu.Lock()
					bad++
					mu.Unlock()
				}
			}
		}(g)
	}
	wg.Wait()
	if bad > 0 {
		fmt.Printf("REPLAY-FAIL class=race/summary %d of %d concurrent calls differed from the sequential result\n", bad, 64*200)
		t.Fail()
	}
}
